"""C09 -- observe registration is counted, reversible, failure-atomic and weak.

Model: a multiset count per (target, handler, compiled graph, dispatch).  The
graphs are the harness's own canonical trees (never traits' ObserverGraph
objects); a from-scratch walker over the live object graph says which
observables a graph matches, whether a registration must fail, and whether the
failure has a healthy sibling subtree / a healthy parallel graph next to it
(the two structural classes of the open F7 family, drawn in their own strata).

Observed: handler call counts after changing every probe-able trait (and for
every structural mutation), the read-only notifier census of DESIGN 3.5,
exceptions of observe() itself, both exception channels, weakref liveness.
See DESIGN.md section 4 / C09.
"""
import collections
import gc
import itertools
import sys
import threading
import weakref

from traits.api import (HasTraits, Int, Float, Instance, List, Dict, Set, Str, Any,
                        Undefined, Uninitialized)
from traits.api import push_exception_handler as legacy_push
from traits.api import pop_exception_handler as legacy_pop
import traits.trait_notifiers as trait_notifiers
from traits.observation import api as oapi
from traits.observation.exceptions import NotifierNotFound
from traits.trait_list_object import TraitList
from traits.trait_dict_object import TraitDict
from traits.trait_set_object import TraitSet

META = {
    "level": "exploration",
    "rule": ("cases = (1) random 15-step histories over a layered pool of 10 interlinked HasTraits "
             "objects (2 observe targets) interleaving observe add/remove of 3 handler kinds "
             "(function, bound method, HasTraits bound method) x ~40 expressions (text, expression "
             "objects, lists; single and multi graph; failing ones) x dispatch {same, ui} with "
             "structural mutations, gc.collect(), dropping a target / a handler owner, probes from a "
             "worker thread; after every step every leaf trait of every object is changed once and "
             "call counts are compared with the reachability model; (2) failure-position enumeration: "
             "trees of depth<=4 x fan-out<=3 over 5 link kinds, the failing object (unknown trait / "
             "plain list where a TraitList is required) placed at every node index of the walk, with "
             "pre-registrations sharing notifiers; (3) enumeration of multi-graph expressions with the "
             "failing / unregistered graph at every index and of branch siblings; (4) weakness runs on "
             "dedicated objects; (4b) stale owners: 1-3 targets register over long-lived shared objects "
             "and are collected WITHOUT unregistering, then a burst of 4-8 fresh targets of the same "
             "class (allocated right away, so freed addresses are reused; reuse is only counted) each "
             "register/unregister the same long-lived handler, expression and dispatch, with probes, "
             "graph mutations on the shared objects and one further unregistration; (1b) 'duplicates' "
             "histories: lists holding one object several times, mutated by slice / extended-slice / "
             "whole-list assignments and dict.update() whose replacement overlaps the removed items "
             "with different multiplicities, interleaved with add/remove of expressions that go through "
             "the items; the process-wide UI handler is part of every history (starts as none / "
             "queueing handler A / handler B, is installed, replaced or removed between registration "
             "and unregistration; 'same' and 'ui' registrations of one handler/expression are mixed in "
             "every state; an enumerated stratum covers all 9 (state at registration, state at "
             "unregistration) pairs); (1c) 're-definition' histories: run-time traits (add_trait) on "
             "targets and nested objects, observed by name / optional name / +metadata / * / nested "
             "expressions, and between registration and unregistration one of 8 patterns: add_trait "
             "again for the same run-time name (other type; same or flipped metadata), add_trait over "
             "a class trait (same or flipped metadata), remove_trait, remove_trait + add_trait, "
             "remove_trait of a class trait, add_trait of a new name (trait_added); operations that "
             "meet the structural condition of one of three open findings put the rest of their "
             "history under that finding's mechanism key; (5) a 4-thread add/remove stress; (6) 'gcpoints', ENUMERATED: 4 victim kinds (owner of a bound-method handler, plain or HasTraits; the observed root; both) x 8 expressions x 5 operations (matched leaf change, link change, container mutation, registration / unregistration of another handler): the victims are cyclic garbage, automatic collection is off, and the operation is re-run on a fresh twin with gc.collect() injected before the k-th statement executed inside the traits package (sys.monitoring LINE events) for EVERY k; judged: nothing raised or reported, call counts of the surviving handlers equal to the twin's, victims dead, and afterwards one call per matched change for survivors, none for the dead, registrations made during the collection removable exactly once; "
             "(7) 'cycles', ENUMERATED: weakness when the registration is part of a reference cycle - 9 handler "
             "forms held strongly by the registration (closure, default argument, functools.partial, callable "
             "object, function attribute, closure over a container, handler storing the events it receives "
             "locally / on the target; control: bound method of a controller the graph refers to) x 5 things "
             "the handler refers to (observed root, object on the path, item, deeper object, the observed "
             "container) x 8-16 expressions, with 1-3 registrations, 0..n unregistrations, a failed "
             "registration in between, graph mutations, a retained bystander next to the path; everything is "
             "built in a helper that returns weak references only; judged: one call per change while "
             "registered, every object of the island dead after gc.collect(), no call / exception afterwards; "
             "(8) 'nested': containers of containers (Dict of List / Dict / Set, List of List / Dict, of "
             "objects and of numbers, and a dict of objects with content-based equality) observed through "
             "name.items.items[.value] in notify / quiet / explicit / optional forms: random histories of "
             "add / remove / failing add with graph mutations that give a key or slot a NEW container EQUAL "
             "to the one it replaces (copy, the same object handed back, slices, update(), |=, whole-trait "
             "assignment; an Instance link given an equal but distinct object), unequal replacements, new / deleted keys, equal siblings; after every step inner "
             "containers in the graph AND containers that left it are changed and their items probed; plus an "
             "enumeration container kind x equal-replacement operation x count x handler kind x dispatch of "
             "'register n times, replace, probe both containers, unregister n times, census == initial, once "
             "more -> NotifierNotFound'.  distinct_nontrivial counts distinct "
             "(stratum, op, expression shape, handler kind, dispatch, count class, outcome class, "
             "failure-position class) signatures of steps in which a registration changed, a call was "
             "observed, an exception was raised or an object died."),
    "phases": [{"name": "main", "flavour": "P", "shards": 16}],
    "gates": {
        "quick": {"gcpoint_runs": 40000, "gcpoint_effective": 30000, "gcpoint_afterwards_checked": 40000,
                  "gcpoint_victims_died": 40000, "gcpoint_registrations_during_collection": 8000,
                  "gcpoint_removals_during_collection": 15000, "gcpoint_distinct_effective_lines": 2000,
                  "evaluations": 200000, "probe_checks": 200000, "adds_ok": 2500, "removes_ok": 2000,
                  "failed_adds_checked": 1000, "failed_adds_held_first_path": 500,
                  "failed_removes_checked": 1000, "failpos_cases": 500, "failpos_sibling_cases": 250,
                  "zero_census_checks": 2000, "calls_observed": 8000, "ui_queued_calls": 300,
                  "weak_deaths_checked": 400, "gc_threshold_cases": 120, "thread_stress_runs": 1,
                  "mutations": 1200, "count_ge2_probes": 2000, "duplicate_histories": 200,
                  "multiplicity_changing_events_while_registered": 150, "stale_owner_cycles": 600,
                  "stale_owner_address_reused": 150, "ui_state_cases": 150,
                  "ui_handler_switches_while_ui_registered": 300, "ui_no_handler_reports": 700,
                  "histories_starting_without_ui_handler": 250, "redefinition_histories": 180,
                  "redefinitions_while_registered": 500, "redefinitions/readd": 60,
                  "redefinitions/over-class": 60, "redefinitions/remove+add": 60,
                  "redefinitions/add-new": 150,
                  "cycle_deaths_checked": 180, "cycle_through_registration_cases": 130,
                  "cycle_through_registration_holding_the_target": 35, "cycle_bystander_checks": 70,
                  "nested_histories": 160, "nested_literal_cases": 170,
                  "nested_equal_replacements_under_a_registration_through_the_container": 250,
                  "nested_inner_probes": 12000, "nested_retired_probes": 3000,
                  "nested_equal_link_replacements_while_registered": 25},
        "thorough": {"gcpoint_runs": 40000, "gcpoint_effective": 30000, "gcpoint_afterwards_checked": 40000,
                  "gcpoint_victims_died": 40000, "gcpoint_registrations_during_collection": 8000,
                  "gcpoint_removals_during_collection": 15000, "gcpoint_distinct_effective_lines": 2000,
                  "evaluations": 5000000, "probe_checks": 5000000, "adds_ok": 80000,
                     "removes_ok": 80000, "failed_adds_checked": 20000,
                     "failed_adds_held_first_path": 10000, "failed_removes_checked": 40000,
                     "failpos_cases": 8000, "failpos_sibling_cases": 4000, "zero_census_checks": 60000,
                     "calls_observed": 300000, "ui_queued_calls": 10000,
                     "weak_deaths_checked": 10000, "gc_threshold_cases": 2500,
                     "thread_stress_runs": 8, "mutations": 40000, "count_ge2_probes": 80000,
                     "duplicate_histories": 6000, "multiplicity_changing_events_while_registered": 4000,
                     "stale_owner_cycles": 12000, "stale_owner_address_reused": 3000,
                     "ui_state_cases": 150, "ui_handler_switches_while_ui_registered": 10000,
                     "ui_no_handler_reports": 25000, "histories_starting_without_ui_handler": 8000,
                     "redefinition_histories": 5000, "redefinitions_while_registered": 15000,
                     "redefinitions/readd": 2000, "redefinitions/over-class": 2000,
                     "redefinitions/remove+add": 2000, "redefinitions/add-new": 5000,
                     "cycle_deaths_checked": 2000, "cycle_through_registration_cases": 1500,
                     "cycle_through_registration_holding_the_target": 800, "cycle_bystander_checks": 800,
                     "nested_histories": 6000, "nested_literal_cases": 400,
                     "nested_equal_replacements_under_a_registration_through_the_container": 3000,
                     "nested_inner_probes": 150000, "nested_retired_probes": 100000,
                     "nested_equal_link_replacements_while_registered": 450},
    },
    "exhaustive_parts": ("failure position: every node index of the walk for trees of depth 1..4 x "
                         "fan-out 1..3 (quick: depth 4 only with fan-out <= 2); multi-graph "
                         "expressions of 2..3 graphs: every index of the failing graph (add) and every "
                         "subset of registered graphs (remove)"),
    "assumptions": [
        "the harness's walker (named trait / items / metadata / anytrait semantics from the user "
        "manual) is the reachability reference; values absent from __dict__, None and Undefined are "
        "not followed",
        "two different graphs of one handler/dispatch that match the same observable may deliver "
        "one call or one call each (between 1 and the number of matching graphs); only the same "
        "graph registered n times is required to deliver exactly one",
        "dispatch='ui' with no UI handler installed is modelled as the unchanged tree behaves: on the "
        "main thread the handler runs immediately; off the main thread the dispatcher raises "
        "RuntimeError, which is reported once per listening 'ui' registration through the observe "
        "exception channel and the handler is not run; registration identity never depends on the "
        "UI handler",
        "re-definition: add_trait / remove_trait fire no change event for the value; the model expects "
        "one trait_added event for a new name (also after remove_trait) and none otherwise; a "
        "+metadata filter matches the traits that carry the metadata NOW",
        "cycles: the harness holds no strong reference into the island (weak references only, taken "
        "inside a helper whose frame is gone); an object kept alive by something other than a "
        "registration would be reported as kept alive",
        "nested: the container traits compare by equality, so assigning an EQUAL container to the trait "
        "replaces the container without being a change of the trait (no call expected for the trait "
        "itself); container mutations (d[k] = v, update, slices) always are changes",
        "thread stress: final-state oracle only (census, absence of exceptions); preemptive "
        "interleavings are sampled by the OS scheduler, reach is limited",
    ],
    "case_timeout": 600,
}

UNOBSERVABLE = (None, Undefined, Uninitialized)
MAIN_THREAD = threading.main_thread()


# ---------------------------------------------------------------------------
# harness classes
# ---------------------------------------------------------------------------
class Node(HasTraits):
    sn = Int(-1)
    value = Int
    other = Int
    tagged = Int(tag=True)
    child = Instance(HasTraits, link=True)
    other_child = Instance(HasTraits, link=True)
    children = List(Instance(HasTraits))
    cmap = Dict(Str, Instance(HasTraits))
    cset = Set(Instance(HasTraits))
    bag = Any


class Leaf(HasTraits):
    """Lacks `value` and every link trait: a registration reaching it fails."""
    sn = Int(-1)
    other = Int


class HOwner(HasTraits):
    rec = Any
    idx = Int

    def on_event(self, event):
        self.rec.hit(self.idx, event)


class Owner:
    def __init__(self, rec, idx):
        self.rec = rec
        self.idx = idx

    def meth(self, event):
        self.rec.hit(self.idx, event)


class Twin(Node):
    """Distinct objects with content-based equality: every Twin equals (and hashes like) every other."""

    def __eq__(self, other):
        return isinstance(other, Twin)

    def __ne__(self, other):
        return not isinstance(other, Twin)

    def __hash__(self):
        return 7


class Hub(HasTraits):
    """Containers of containers (stratum 'nested', _c09_nested.py): the inner containers compare by
    content, so a key / slot can be given a NEW container that equals the one it replaces."""
    sn = Int(-1)
    value = Int
    other = Int
    tagged = Int(tag=True)
    child = Instance(HasTraits, link=True)
    pal = Instance(HasTraits)                    # holds objects with content-based equality
    groups = Dict(Str, List(Instance(HasTraits)))
    table = Dict(Str, Dict(Str, Instance(HasTraits)))
    packs = Dict(Str, Set(Instance(HasTraits)))
    rows = List(List(Instance(HasTraits)))
    lmaps = List(Dict(Str, Instance(HasTraits)))
    numbers = Dict(Str, List(Int))
    grid = List(List(Int))
    tmap = Dict(Str, Instance(HasTraits))


HUB_CONTAINERS = ("groups", "table", "packs", "rows", "lmaps", "numbers", "grid", "tmap")
_EVENTS = ("trait_added", "trait_modified")
NAMES = {
    Node: ("bag", "child", "children", "cmap", "cset", "other", "other_child", "sn", "tagged",
           "value") + _EVENTS,
    Leaf: ("other", "sn") + _EVENTS,
    Hub: ("child", "other", "pal", "sn", "tagged", "value") + HUB_CONTAINERS + _EVENTS,
}
CENSUS_EXTRA = {Node: ("children_items", "cmap_items", "cset_items"), Leaf: (),
                Hub: tuple(n + "_items" for n in HUB_CONTAINERS)}
TAGS = {Node: {"tag": ("tagged",), "link": ("child", "other_child")}, Leaf: {},
        Hub: {"tag": ("tagged",), "link": ("child",)}}
LEAF_PROBES = {Node: ("value", "other", "tagged"), Leaf: ("other",), Hub: ("value", "other", "tagged")}
CONTAINERS = {Node: ("children", "cmap", "cset", "bag"), Leaf: (), Hub: HUB_CONTAINERS}
for _table in (NAMES, CENSUS_EXTRA, TAGS, LEAF_PROBES, CONTAINERS):
    _table[Twin] = _table[Node]
HANDLER_KINDS = ("function", "method", "hastraits-method")


def sn_of(o):
    return o.__dict__["sn"]


# Traits (re)defined at run time with add_trait: serial -> {name: spec}; spec = {"kind": int|float|
# any|inst|instnode, "tag": bool, "link": bool}.  An entry whose name is a class trait overrides the
# class definition.  Reset by every Session (sessions never overlap).
DYN = {}
DYN_UNIVERSE = ("dyn0", "dyn1", "dnode", "late")


def has_name(obj, name):
    return name in NAMES[type(obj)] or name in DYN.get(sn_of(obj), ())


def names_of(obj):
    d = DYN.get(sn_of(obj))
    base = NAMES[type(obj)]
    if not d:
        return base
    return tuple(base) + tuple(n for n in d if n not in base)


def tag_names(obj, tag):
    d = DYN.get(sn_of(obj)) or {}
    out = [n for n in TAGS[type(obj)].get(tag, ()) if n not in d]
    out += [n for n, spec in d.items() if spec.get(tag)]
    return out


def leaf_probes(obj):
    d = DYN.get(sn_of(obj))
    base = LEAF_PROBES[type(obj)]
    if not d:
        return base
    return tuple(base) + tuple(n for n, spec in d.items()
                               if n not in base and spec["kind"] in ("int", "float", "any"))


def bump(o, name):
    """Change a numeric leaf trait by one, in the type its current definition wants."""
    spec = (DYN.get(sn_of(o)) or {}).get(name)
    v = getattr(o, name)
    if spec is not None and spec["kind"] == "float":
        setattr(o, name, float(v) + 1.0)
    else:
        setattr(o, name, int(v) + 1)


# ---------------------------------------------------------------------------
# expression trees (harness's own), lowering, rendering
# ---------------------------------------------------------------------------
class X:
    """Surface node: kind t(rait) / L D S (explicit items) / I (text keyword
    `items`) / M(etadata) / A(nytrait)."""
    __slots__ = ("kind", "arg", "notify", "optional", "kids")

    def __init__(self, kind, arg, notify, optional, kids):
        self.kind, self.arg, self.notify, self.optional, self.kids = kind, arg, notify, optional, tuple(kids)


def t(name, *kids, notify=True, optional=False):
    return X("t", name, notify, optional, kids)


def li(*kids, notify=True, optional=False):
    return X("L", None, notify, optional, kids)


def di(*kids, notify=True, optional=False):
    return X("D", None, notify, optional, kids)


def si(*kids, notify=True, optional=False):
    return X("S", None, notify, optional, kids)


def items(*kids, notify=True):
    return X("I", None, notify, True, kids)


def meta(tag, *kids, notify=True):
    return X("M", tag, notify, False, kids)


def anyt(*kids, notify=True):
    return X("A", None, notify, False, kids)


def lower(x):
    """Surface node -> list of real nodes (kind, arg, notify, optional, kids)."""
    kids = tuple(r for k in x.kids for r in lower(k))
    if x.kind == "I":
        return [("t", "items", x.notify, True, kids), ("D", None, x.notify, True, kids),
                ("L", None, x.notify, True, kids), ("S", None, x.notify, True, kids)]
    return [(x.kind, x.arg, x.notify, x.optional, kids)]


def canon(r):
    return (r[0], r[1], r[2], r[3], frozenset(canon(c) for c in r[4]))


def textable(x):
    if x.kind in "LDS":
        return False
    if x.kind == "t" and x.optional:
        return False
    if not x.kids:
        return x.notify
    if x.kind == "A":
        return False
    return all(textable(k) for k in x.kids)


def render(x):
    s = {"t": x.arg, "I": "items", "M": "+%s" % x.arg, "A": "*"}[x.kind]
    if x.kids:
        ks = [render(k) for k in x.kids]
        s += ("." if x.notify else ":") + (ks[0] if len(ks) == 1 else "[" + ",".join(ks) + "]")
    return s


def describe(x):
    """Readable form for witnesses (also for trees the text language cannot say)."""
    s = {"t": x.arg, "I": "items", "M": "+%s" % x.arg, "A": "*", "L": "list_items()",
         "D": "dict_items()", "S": "set_items()"}[x.kind]
    if x.optional and x.kind != "I":
        s += "?"
    if x.kids:
        ks = [describe(k) for k in x.kids]
        s += ("." if x.notify else ":") + (ks[0] if len(ks) == 1 else "[" + ",".join(ks) + "]")
    elif not x.notify:
        s += "(quiet)"
    return s


def shape(x):
    """Coarse structural class of a tree for signatures."""
    s = x.kind + ("" if x.notify else "q") + ("o" if x.optional and x.kind != "I" else "")
    if x.kids:
        s += "(" + "".join(shape(k) for k in x.kids) + ")"
    return s


def node_expr(x):
    n = x.notify
    if x.kind == "t":
        return oapi.trait(x.arg, notify=n, optional=x.optional)
    if x.kind == "L":
        return oapi.list_items(notify=n, optional=x.optional)
    if x.kind == "D":
        return oapi.dict_items(notify=n, optional=x.optional)
    if x.kind == "S":
        return oapi.set_items(notify=n, optional=x.optional)
    if x.kind == "M":
        return oapi.metadata(x.arg, notify=n)
    if x.kind == "A":
        return oapi.anytrait(notify=n)
    return (oapi.trait("items", notify=n, optional=True) | oapi.dict_items(notify=n, optional=True)
            | oapi.list_items(notify=n, optional=True) | oapi.set_items(notify=n, optional=True))


def to_expr(x):
    e = node_expr(x)
    if x.kids:
        k = to_expr(x.kids[0])
        for c in x.kids[1:]:
            k = k | to_expr(c)
        e = e.then(k)
    return e


class Gr:
    """One graph: surface tree + lowered tree + canonical (order-free) key."""
    __slots__ = ("x", "real", "key", "desc", "shape")

    def __init__(self, x):
        self.x = x
        rs = lower(x)
        assert len(rs) == 1
        self.real = rs[0]
        self.key = canon(self.real)
        self.desc = describe(x)
        self.shape = shape(x)


class Entry:
    """An expression as handed to observe(): a list of graphs and a form."""

    def __init__(self, name, graphs, form="auto", text=None):
        self.name = name
        self.graphs = [g if isinstance(g, Gr) else Gr(g) for g in graphs]
        can_text = all(textable(g.x) for g in self.graphs)
        if form == "auto":
            form = "text" if can_text else "expr"
        if form in ("text", "textlist") and not can_text:
            form = "expr" if form == "text" else "exprlist"
        self.form = form
        self.text = text
        self.desc = " ; ".join(g.desc for g in self.graphs)
        self.shape = "|".join(g.shape for g in self.graphs)

    def expression(self):
        f = self.form
        if f == "text":
            return self.text if self.text is not None else ", ".join(render(g.x) for g in self.graphs)
        if f == "textlist":
            return [render(g.x) for g in self.graphs]
        if f == "exprlist":
            return [to_expr(g.x) for g in self.graphs]
        if f == "mixedlist":
            return [render(g.x) if (i % 2 == 0 and textable(g.x)) else to_expr(g.x)
                    for i, g in enumerate(self.graphs)]
        e = to_expr(self.graphs[0].x)
        for g in self.graphs[1:]:
            e = e | to_expr(g.x)
        return e

    def literal(self):
        f = self.form
        if f in ("text", "textlist"):
            return repr(self.expression())
        return "<%s: %s>" % (f, self.desc)


# ---------------------------------------------------------------------------
# reference walker
# ---------------------------------------------------------------------------
def walk(r, obj, origin, out):
    """Visit real node r at obj.  Returns (ok, attachments, healthy_sibling).

    ok            -- the documented rules let the registration pass here
    attachments   -- number of places something would be attached (only its
                     being zero or not matters)
    healthy_sibling -- (when not ok) some sibling subtree next to a failing
                     one, at any level, is ok and attaches something
    `out` collects the matched observables (notify nodes)."""
    kind, arg, notify, optional, kids = r
    nexts = []
    if kind == "t":
        is_ht = isinstance(obj, HasTraits)
        if not is_ht or not has_name(obj, arg):
            if not optional:
                return (False, 0, False)
            return (True, 1 if is_ht else 0, False)      # trait_added maintainer only
        a0 = 1
        if notify:
            out.add(("t", sn_of(obj), arg))
        v = obj.__dict__.get(arg, Undefined)
        if not any(v is u for u in UNOBSERVABLE):
            nexts.append((v, (sn_of(obj), arg)))
    elif kind in ("L", "D", "S"):
        cls = {"L": TraitList, "D": TraitDict, "S": TraitSet}[kind]
        if not isinstance(obj, cls):
            return (True, 0, False) if optional else (False, 0, False)
        a0 = (1 if notify else 0) + len(kids)
        if notify:
            out.add(("c",) + tuple(origin))
        vals = list(obj.values()) if kind == "D" else list(obj)
        # a container held by a container has no (object, trait) origin: it is named by identity
        # (the harness keeps every container it ever saw alive, so identities are not reused)
        nexts = [(v, ("inner", id(v)) if isinstance(v, (TraitList, TraitDict, TraitSet)) else None)
                 for v in vals]
    else:
        if not isinstance(obj, HasTraits):
            return (False, 0, False)
        names = names_of(obj) if kind == "A" else tag_names(obj, arg)
        a0 = 1
        for name in names:
            if notify:
                out.add(("t", sn_of(obj), name))
            v = obj.__dict__.get(name, Undefined)
            if not any(v is u for u in UNOBSERVABLE):
                nexts.append((v, (sn_of(obj), name)))
    total = a0
    fails = healthy_nonempty = inherited = False
    for k in kids:
        for v, org in nexts:
            ok, att, hs = walk(k, v, org, out)
            if ok:
                total += att
                if att > 0:
                    healthy_nonempty = True
            else:
                fails = True
                inherited = inherited or hs
    if fails:
        return (False, 0, healthy_nonempty or inherited)
    return (True, total, False)


class Analysis:
    __slots__ = ("ok", "attach", "healthy", "matched")

    def __init__(self, gr, root):
        out = set()
        self.ok, self.attach, self.healthy = walk(gr.real, root, None, out)
        self.matched = out if self.ok else set()


# ---------------------------------------------------------------------------
# census (read-only accessors, DESIGN 3.5)
# ---------------------------------------------------------------------------
def census(objs):
    c = {}
    for o in objs:
        d = o.__dict__
        sn = d["sn"]
        cls = type(o)
        for n in NAMES[cls] + CENSUS_EXTRA[cls] + DYN_UNIVERSE:
            tr = o._trait(n, 0)
            c[(sn, n)] = -1 if tr is None else len(tr._notifiers(False) or ())
        c[(sn, "<object>")] = len(o._notifiers(False) or ())
        for n in CONTAINERS[cls]:
            v = d.get(n)
            if isinstance(v, (TraitList, TraitDict, TraitSet)):
                c[(sn, n, "items")] = len(v.notifiers)
                if cls is Hub and not isinstance(v, TraitSet):
                    # containers held by the container: what they carry beyond an unobserved one
                    # of their kind (a sum, so that adding / removing unobserved ones changes nothing)
                    ex = 0
                    for w in (v.values() if isinstance(v, TraitDict) else v):
                        if isinstance(w, (TraitList, TraitDict, TraitSet)):
                            ex += len(w.notifiers) - unobserved_size(w)
                    c[(sn, n, "inner-items-excess")] = ex
    return c


_UNOBSERVED = {}


def unobserved_size(container):
    """len(notifiers) of a never-observed container of this kind, measured on a scratch Hub."""
    if not _UNOBSERVED:
        ref = Hub(groups={"r": []}, table={"r": {}}, packs={"r": set()})
        for v in (ref.groups, ref.groups["r"], ref.table["r"], ref.packs["r"]):
            _UNOBSERVED[type(v)] = len(v.notifiers)
    return _UNOBSERVED.get(type(container), 1)


def describe_objs(objs, cap=45):
    """Current links of the pool, for witnesses (serial numbers only)."""
    def ref(v):
        return None if v is None else "%s#%d" % (type(v).__name__, sn_of(v))
    def nested(v):
        if isinstance(v, HasTraits):
            return ref(v)
        if isinstance(v, dict):
            return {k: nested(x) for k, x in v.items()}
        if isinstance(v, (set, frozenset)):
            return sorted(nested(x) for x in v)
        if isinstance(v, list):
            return [nested(x) for x in v]
        return v
    out = {}
    for o in objs[:cap]:
        d = o.__dict__
        if type(o) is Hub:
            e = {n: nested(d[n]) for n in HUB_CONTAINERS if d.get(n)}
            for n in ("child", "pal"):
                if d.get(n) is not None:
                    e[n] = ref(d[n])
            out["Hub#%d" % sn_of(o)] = e
            continue
        if type(o) is Leaf:
            out["Leaf#%d" % sn_of(o)] = "no value / link traits"
            continue
        e = {}
        dyn_links = [n for n, sp in (DYN.get(sn_of(o)) or {}).items() if sp["kind"] in ("inst", "instnode")]
        for n in ["child", "other_child"] + [n for n in dyn_links if n not in ("child", "other_child")]:
            if d.get(n) is not None:
                e[n] = ref(d[n])
        for n in ("children", "cset", "bag"):
            v = d.get(n)
            if isinstance(v, (list, set)) and v:
                e[n] = ("plain list " if type(v) is list else "") + repr(sorted(ref(x) for x in v)
                                                                         if isinstance(v, set) else [ref(x) for x in v])
        if d.get("cmap"):
            e["cmap"] = {k: ref(x) for k, x in d["cmap"].items()}
        out["%s#%d" % (type(o).__name__, sn_of(o))] = e
    return out


def census_diff(a, b):
    out = []
    for k in sorted(set(a) | set(b), key=repr):
        if a.get(k) != b.get(k):
            out.append((k, a.get(k), b.get(k)))
    return out


# ---------------------------------------------------------------------------
# recorder, exception channels, UI handler
# ---------------------------------------------------------------------------
class Rec:
    def __init__(self, n=3):
        self.calls = [0] * n
        self.worker_calls = [0] * n

    def hit(self, idx, event):
        self.calls[idx] += 1
        if threading.current_thread() is not MAIN_THREAD:
            self.worker_calls[idx] += 1


class Channels:
    """Both exception channels and the harness UI handler, installed for the
    duration of run() and restored afterwards."""

    def __init__(self):
        self.captured = []
        self.queue = []

    def _obs(self, event):
        e = sys.exc_info()[1]
        self.captured.append(("observe", type(e).__name__, str(e)[:200]))

    def _legacy(self, obj, name, old, new):
        e = sys.exc_info()[1]
        self.captured.append(("legacy", type(e).__name__, str(e)[:200]))

    def _ui(self, handler, *args, **kw):
        self.queue.append((handler, args, kw))

    def _ui2(self, handler, *args, **kw):
        """A second, different UI handler (a toolkit replacing another)."""
        self.queue.append((handler, args, kw))

    def set_ui(self, state):
        """'A' / 'B': one of the two queueing harness handlers; 'none': no UI handler."""
        trait_notifiers.set_ui_handler({"A": self._ui, "B": self._ui2, "none": None}[state])
        self.ui_state = state

    def install(self):
        oapi.push_exception_handler(handler=self._obs, reraise_exceptions=False)
        legacy_push(handler=self._legacy, reraise_exceptions=False, main=True)
        self.prev_ui = trait_notifiers.get_ui_handler()
        self.set_ui("A")

    def restore(self):
        trait_notifiers.set_ui_handler(self.prev_ui)
        try:
            legacy_pop()
        finally:
            oapi.pop_exception_handler()

    def drain(self):
        n = 0
        while self.queue:
            handler, args, kw = self.queue.pop(0)
            try:
                handler(*args, **kw)
            except Exception as e:           # noqa: BLE001 - what a UI event loop would see
                self.captured.append(("ui-queue", type(e).__name__, str(e)[:200]))
            n += 1
        return n


CH = Channels()


class Worker:
    """One long-lived non-main thread that executes submitted actions (a change
    made from a worker thread: dispatch='ui' must queue, 'same' must not)."""

    def __init__(self):
        self.thread = None

    def _loop(self):
        while True:
            action = self.todo.get()
            if action is None:
                return
            res = None
            try:
                action()
            except BaseException as e:       # noqa: BLE001 - handed back to the caller
                res = e
            action = None                     # this frame must not keep pool objects alive
            self.done.put(res)
            res = None

    def call(self, action):
        if self.thread is None:
            import queue
            self.todo = queue.SimpleQueue()
            self.done = queue.SimpleQueue()
            self.thread = threading.Thread(target=self._loop, daemon=True)
            self.thread.start()
        self.todo.put(action)
        return self.done.get()

    def stop(self):
        if self.thread is not None:
            self.todo.put(None)
            self.thread.join()
            self.thread = None


WORKER = Worker()


class Stop(Exception):
    """The current history met its first violation."""


# ---------------------------------------------------------------------------
# session: model + oracle around one object pool
# ---------------------------------------------------------------------------
class Session:
    def __init__(self, ctx, stratum, objs, roots, extra=None):
        self.ctx = ctx
        self.stratum = stratum
        self.objs = list(objs)
        self.roots = list(roots)
        self.rec = Rec()
        self.counts = collections.Counter()     # (root idx, handler idx, graph key, dispatch) -> n
        self.graphs = {}                         # graph key -> Gr
        self.cache = {}
        self.trace = []
        self.extra = extra or {}
        self.tainted = False                     # dead notifiers may remain: no baseline equality
        self.after_failed = False
        rec = self.rec
        self.fn = lambda event: rec.hit(0, event)
        self.owner = Owner(rec, 1)
        self.howner = HOwner(rec=rec, idx=2)
        self.base = None
        self.retired = []                        # stratum 'nested': containers replaced in the graph
        self.key_prefix = None                   # set by strata of patterns that are open findings
        DYN.clear()

    # -- plumbing ---------------------------------------------------------
    def handler(self, hi):
        if hi == 0:
            return self.fn
        if hi == 1:
            return self.owner.meth           # a fresh bound method object every time
        return self.howner.on_event

    def census(self):
        c = census(self.objs)
        for i, v in enumerate(self.retired):   # containers that left the graph: nothing may stay on them
            c[("retired container", i)] = len(v.notifiers) - unobserved_size(v)
        return c

    def retire(self, container):
        self.retired.append(container)
        if self.base is not None:
            self.base[("retired container", len(self.retired) - 1)] = 0

    def set_base(self):
        self.base = self.census()

    def analysis(self, ri, gr):
        k = (ri, gr.key)
        a = self.cache.get(k)
        if a is None:
            a = self.cache[k] = Analysis(gr, self.roots[ri])
        return a

    def invalidate(self):
        self.cache.clear()

    def witness(self, **kw):
        w = {"stratum": self.stratum, "trace": self.trace[-40:],
             "registered": [(ri, HANDLER_KINDS[hi], self.graphs[k].desc, d, n)
                            for (ri, hi, k, d), n in self.counts.items() if n]}
        w.update(self.extra)
        w.update(kw)
        w["objects_now"] = describe_objs(self.objs)
        if DYN:
            w["run_time_traits"] = {"#%d" % k: {n: "%s%s%s" % (sp["kind"], " tag" if sp.get("tag") else "",
                                                               " link" if sp.get("link") else "")
                                               for n, sp in v.items()} for k, v in DYN.items() if v}
        w["targets"] = ["Node#%d" % sn_of(r) for r in self.roots if r is not None]
        return w

    def fail(self, key, msg, **kw):
        if self.key_prefix:                      # one mechanism key per open pattern; symptom in the text
            msg = "[symptom %s] %s" % (key, msg)
            key = self.key_prefix
        self.ctx.violation(key, "%s [%s]" % (msg, self.stratum), self.witness(**kw))
        raise Stop(key)

    def check_channels(self, where):
        if CH.captured:
            cap = list(CH.captured)
            del CH.captured[:]
            self.fail("exception-channel/%s/%s" % (cap[0][0], cap[0][1]),
                      "exception reported through the %s channel during %s: %r" % (cap[0][0], where, cap[:3]),
                      captured=cap[:5])

    def total(self):
        return sum(self.counts.values())

    # -- registration -----------------------------------------------------
    def add(self, ri, hi, entry, disp):
        ctx = self.ctx
        root = self.roots[ri]
        an = [self.analysis(ri, g) for g in entry.graphs]
        model_ok = all(a.ok for a in an)
        sibling = any((not a.ok) and a.healthy for a in an)
        parallel = (not model_ok) and any(a.ok and a.attach > 0 for a in an)
        before = max([self.counts[(ri, hi, g.key, disp)] for g in entry.graphs])
        self.trace.append(("add", ri, HANDLER_KINDS[hi], entry.literal(), disp))
        c0 = self.census()
        raised = None
        try:
            root.observe(self.handler(hi), entry.expression(), dispatch=disp)
        except Exception as e:               # noqa: BLE001 - outcome classification
            raised = e
        c1 = self.census()
        ctx.ev()
        cls = "ok" if model_ok else ("fail+sibling" if sibling else "") + ("fail+parallel" if parallel else "") \
            or "fail-first-path"
        ctx.sig(self.stratum, "add", entry.shape, entry.form, HANDLER_KINDS[hi], disp, min(before, 2),
                cls, type(raised).__name__)
        if model_ok:
            if raised is not None:
                self.fail("add/raised-unexpectedly/%s" % type(raised).__name__,
                          "observe(%s, dispatch=%r) raised %r although every trait it names exists"
                          % (entry.literal(), disp, raised))
            for g in entry.graphs:
                self.counts[(ri, hi, g.key, disp)] += 1
                self.graphs[g.key] = g
            ctx.count("adds_ok")
            if before >= 1:
                ctx.count("adds_on_registered")
            return True
        ctx.count("failed_adds_checked")
        if raised is None:
            self.fail("add/succeeded-on-failing-graph",
                      "observe(%s) did not raise although the walk meets an unknown trait / wrong container"
                      % entry.literal())
        if c1 != c0:
            if sibling and parallel:
                key = "observe-add-rollback/sibling-and-parallel-graph-left-attached"
            elif sibling:
                key = "observe-add-rollback/sibling-left-attached"
            elif parallel:
                key = "observe-add-rollback/parallel-graph-left-attached"
            else:
                key = "observe-add-rollback/partial-attach"
            self.fail(key, "observe(%s, dispatch=%r) raised %s: %s -- yet the notifier census changed: %r"
                      % (entry.literal(), disp, type(raised).__name__, str(raised)[:120],
                         census_diff(c0, c1)[:6]),
                      census_diff=census_diff(c0, c1)[:12], failure_class=cls)
        self.after_failed = True
        ctx.count("failed_adds_held_first_path" if not (sibling or parallel) else "failed_adds_held_other")
        return False

    def remove(self, ri, hi, entry, disp):
        ctx = self.ctx
        root = self.roots[ri]
        need = collections.Counter(g.key for g in entry.graphs)
        have_all = all(self.counts[(ri, hi, k, disp)] >= n for k, n in need.items())
        have_any = any(self.counts[(ri, hi, k, disp)] >= 1 for k in need)
        walkable = all(self.analysis(ri, g).ok for g in entry.graphs)
        before = max([self.counts[(ri, hi, g.key, disp)] for g in entry.graphs])
        self.trace.append(("remove", ri, HANDLER_KINDS[hi], entry.literal(), disp))
        c0 = self.census()
        raised = None
        try:
            root.observe(self.handler(hi), entry.expression(), dispatch=disp, remove=True)
        except Exception as e:               # noqa: BLE001
            raised = e
        c1 = self.census()
        ctx.ev()
        cls = "registered" if have_all else ("partly-registered" if have_any else "unregistered")
        ctx.sig(self.stratum, "remove", entry.shape, entry.form, HANDLER_KINDS[hi], disp, min(before, 2),
                cls, walkable, type(raised).__name__)
        if have_all:
            if raised is not None:
                self.fail("remove/raised-though-registered/%s" % type(raised).__name__,
                          "observe(%s, dispatch=%r, remove=True) raised %r although the model count of "
                          "every graph is >= 1" % (entry.literal(), disp, raised))
            for g in entry.graphs:
                self.counts[(ri, hi, g.key, disp)] -= 1
            ctx.count("removes_ok")
            if self.total() == 0:
                self.zero_check("after the last removal")
            return True
        ctx.count("failed_removes_checked")
        if raised is None:
            self.fail("remove/succeeded-at-count-zero",
                      "observe(%s, dispatch=%r, remove=True) did not raise although the model count is 0"
                      % (entry.literal(), disp))
        if walkable and not isinstance(raised, NotifierNotFound):
            self.fail("remove/wrong-exception-at-count-zero/%s" % type(raised).__name__,
                      "removing %s at count 0 raised %r, not NotifierNotFound" % (entry.literal(), raised))
        if c1 != c0:
            key = ("observe-remove-rollback/parallel-graph-left-removed" if have_any
                   else "observe-remove-rollback/partial-detach")
            self.fail(key, "observe(%s, dispatch=%r, remove=True) raised %s -- yet the notifier census "
                      "changed: %r" % (entry.literal(), disp, type(raised).__name__, census_diff(c0, c1)[:6]),
                      census_diff=census_diff(c0, c1)[:12], registration_class=cls)
        return False

    def zero_check(self, where):
        if self.tainted or self.base is None:
            return
        self.ctx.ev()
        self.ctx.count("zero_census_checks")
        c = self.census()
        if c != self.base:
            self.fail("zero-census/differs",
                      "every registration was removed again (%s) but the notifier census differs from "
                      "the one taken before the first registration: %r" % (where, census_diff(self.base, c)[:6]),
                      census_diff=census_diff(self.base, c)[:12])

    def unwind(self, rng):
        """Remove every outstanding registration, one graph at a time."""
        keys = [k for k, n in self.counts.items() for _ in range(n)]
        rng.shuffle(keys)
        for (ri, hi, gk, disp) in keys:
            e = Entry("unwind", [self.graphs[gk]], form="expr")
            self.remove(ri, hi, e, disp)
        if self.total() == 0 and not keys:
            self.zero_check("nothing registered")

    # -- probing ----------------------------------------------------------
    def expected(self, observables):
        """Per handler: [same_lo, same_hi, ui_lo, ui_hi, max count involved]."""
        exp = [[0, 0, 0, 0, 0] for _ in range(3)]
        per = collections.defaultdict(int)
        for (ri, hi, gk, disp), n in self.counts.items():
            if n <= 0:
                continue
            m = self.analysis(ri, self.graphs[gk]).matched
            for ob in observables:
                if ob in m:
                    per[(ri, hi, disp, ob)] += 1
                    if n > exp[hi][4]:
                        exp[hi][4] = n
        for (ri, hi, disp, ob), m in per.items():
            off = 0 if disp == "same" else 2
            exp[hi][off] += 1
            exp[hi][off + 1] += m
        return exp

    def fire(self, kind, observables, action, what, via_thread=False, thread_rng=None,
             tolerate_late=False):
        ctx = self.ctx
        rec = self.rec
        exp = self.expected(observables)
        if thread_rng is not None:
            # changes made from a worker thread: often where a 'ui' registration listens
            via_thread = thread_rng.random() < (0.35 if any(e[3] for e in exp) else 0.02)
        b = list(rec.calls)
        bw = list(rec.worker_calls)
        raised = None
        queued = 0
        no_ui = via_thread and CH.ui_state == "none"
        reports = 0
        if via_thread:
            raised = WORKER.call(action)
            queued = len(CH.queue)
            ctx.count("ui_queued_calls", queued)
            ctx.count("thread_probes")
            CH.drain()
            if no_ui:
                # dispatch='ui' off the main thread without a UI handler: the dispatcher raises
                # RuntimeError, which goes to the observe exception channel; the handler is not run
                keep = [c for c in CH.captured if c[:2] != ("observe", "RuntimeError")]
                reports = len(CH.captured) - len(keep)
                CH.captured[:] = keep
                ctx.count("thread_probes_without_ui_handler")
                ctx.count("ui_no_handler_reports", reports)
        else:
            try:
                action()
            except Exception as e:           # noqa: BLE001
                raised = e
        ctx.ev()
        ctx.count("probe_checks")
        if raised is not None:
            if tolerate_late:
                # documented: a non-optional observer can only fail later, inside the change that
                # brings an object without the trait / of the wrong kind under a registered graph
                self.invalidate()
                if any(n > 0 and not self.analysis(kri, self.graphs[gk]).ok
                       for (kri, khi, gk, kd), n in self.counts.items()):
                    ctx.count("histories_ended_by_late_failure")
                    del CH.captured[:]
                    raise Stop("late")
            self.trace.append((kind, what))
            self.fail("%s/raised/%s" % (kind, type(raised).__name__),
                      "%s raised %r" % (what, raised))
        anycall = False
        for hi in range(3):
            got = rec.calls[hi] - b[hi]
            gotw = rec.worker_calls[hi] - bw[hi]
            slo, shi, ulo, uhi, mx = exp[hi]
            if no_ui:
                ulo = uhi = 0                 # reported through the exception channel instead
            lo, hi_ = slo + ulo, shi + uhi
            if got:
                anycall = True
                ctx.count("calls_observed", got)
            if mx >= 2:
                ctx.count("count_ge2_probes")
            bad = None
            if got < lo:
                bad = "missing-call"
            elif got > hi_:
                bad = "extra-call"
            elif via_thread and not (slo <= gotw <= shi and ulo <= got - gotw <= uhi):
                bad = "wrong-thread"
            if bad:
                mclass = "count0" if hi_ == 0 else ("count1" if mx <= 1 else "countN")
                if self.after_failed and hi_ == 0:
                    mclass = "count0-after-failed-registration"
                self.trace.append((kind, what))
                self.fail("probe/%s/%s/%s" % (kind, bad, mclass),
                          "%s: %s handler called %d time(s) (%d in the worker thread), model expects "
                          "between %d and %d (same %d..%d, ui %d..%d; highest registration count %d)"
                          % (what, HANDLER_KINDS[hi], got, gotw, lo, hi_, slo, shi, ulo, uhi, mx),
                          observables=list(observables))
        if via_thread:
            want_lo = sum(e[2] for e in exp)
            want_hi = sum(e[3] for e in exp)
            if no_ui:
                if queued or not (want_lo <= reports <= want_hi):
                    self.trace.append((kind, what))
                    self.fail("ui/no-handler/report-count-mismatch",
                              "%s from a worker thread with no UI handler installed: %d call(s) queued, "
                              "%d RuntimeError report(s) on the observe exception channel, model expects "
                              "0 queued and %d..%d reports (one per 'ui' registration listening)"
                              % (what, queued, reports, want_lo, want_hi))
            elif not (want_lo <= queued <= want_hi):
                self.trace.append((kind, what))
                self.fail("ui/queued-count-mismatch",
                          "%s from a worker thread queued %d UI call(s), model expects %d..%d"
                          % (what, queued, want_lo, want_hi))
        if anycall:
            ctx.sig(self.stratum, "probe", kind, via_thread, CH.ui_state if via_thread else "-",
                    tuple((min(e[0], 2), min(e[2], 2), min(e[4], 3)) for e in exp))
        self.check_channels(what)

    def switch_ui(self, state):
        """Install / replace / remove the process-wide UI handler (part of the history)."""
        ctx = self.ctx
        prev = CH.ui_state
        self.trace.append(("set_ui_handler", {"A": "handler A", "B": "handler B", "none": None}[state]))
        CH.set_ui(state)
        n_ui = sum(n for (ri, hi, gk, d), n in self.counts.items() if d == "ui")
        ctx.count("ui_handler_switches")
        if n_ui:
            ctx.count("ui_handler_switches_while_ui_registered")
        ctx.sig(self.stratum, "set_ui_handler", prev, state, min(n_ui, 2))

    def probe_all(self, rng=None, objs=None):
        for o in (self.objs if objs is None else objs):
            for name in leaf_probes(o):

                def action(o=o, name=name):
                    bump(o, name)
                self.fire("leaf", [("t", sn_of(o), name)], action,
                          "#%d.%s += 1" % (sn_of(o), name), thread_rng=rng)


# ---------------------------------------------------------------------------
# main stratum: layered pool, catalogue, mutations
# ---------------------------------------------------------------------------
RANKS = (2, 3, 3, 2)


def build_pool(rng, dup=False):
    layers = []
    sn = 0
    for r, n in enumerate(RANKS):
        layer = []
        for _ in range(n):
            layer.append(Node(sn=sn))
            sn += 1
        layers.append(layer)
    objs = [o for layer in layers for o in layer]
    rank = {}
    for r, layer in enumerate(layers):
        for o in layer:
            rank[sn_of(o)] = r
    for o in objs:                       # warm-up: materialise every default first
        o.children, o.cmap, o.cset, o.child, o.other_child, o.bag
        o.value = 10 * sn_of(o)
        o.other = 10 * sn_of(o) + 1
        o.tagged = 10 * sn_of(o) + 2
    for r in range(len(layers) - 1):
        nxt = layers[r + 1]
        for o in layers[r]:
            if rng.random() < 0.88:
                o.child = rng.choice(nxt)
            if rng.random() < 0.7:
                o.other_child = rng.choice(nxt)
            if dup:                           # the same object several times in one list
                a = rng.choice(nxt)
                o.children = [a if rng.random() < 0.6 else rng.choice(nxt) for _ in range(rng.randint(2, 5))]
            elif rng.random() < 0.9:
                o.children = [rng.choice(nxt) for _ in range(rng.randint(1, 3))]
            o.cmap = {"k%d" % i: rng.choice(nxt) for i in range(rng.randint(0, 2))}
            o.cset = set(rng.sample(nxt, rng.randint(0, 2)))
    return objs, layers, rank


V = t("value")


def catalogue():
    E = Entry
    ok = [
        E("value", [t("value")]),
        E("other", [t("other")]),
        E("child.value", [t("child", V)]),
        E("child:value", [t("child", V, notify=False)]),
        E("children.items.value", [t("children", items(V))]),
        E("children:items:value", [t("children", items(V, notify=False), notify=False)]),
        E("cmap.items.value", [t("cmap", items(V))]),
        E("cset.items.value", [t("cset", items(V))]),
        E("children.items.children.items.value", [t("children", items(t("children", items(V))))]),
        E("child.child.value", [t("child", t("child", V))]),
        E("child.children.items.value", [t("child", t("children", items(V)))]),
        E("children.items", [t("children", items())]),
        E("children", [t("children")]),
        E("child", [t("child")]),
        E("child.[value,other]", [t("child", V, t("other"))]),
        E("+tag", [meta("tag")]),
        E("child.+tag", [t("child", meta("tag"))]),
        E("*", [anyt()]),
        E("child.*", [t("child", anyt())]),
        E("+link.value", [meta("link", V)]),
        E("children.items.+tag", [t("children", items(meta("tag")))]),
        E("x:child.value", [t("child", V)], form="expr"),
        E("x:children.list.value", [t("children", li(V))]),
        E("x:children:list:value", [t("children", li(V, notify=False), notify=False)]),
        E("x:cmap.dict.value", [t("cmap", di(V))]),
        E("x:cset.set.value", [t("cset", si(V))]),
        E("x:nope?", [t("nope", optional=True)]),
        E("x:nope?.value", [t("nope", V, optional=True)]),
        E("x:child.list?.value", [t("child", li(V, optional=True))]),
        E("x:children.dict?.value", [t("children", di(V, optional=True))]),
        E("x:value.quiet", [t("child", t("value", notify=False))]),
        E("value, child.value", [t("value"), t("child", V)]),
        E("[child,other_child].value", [t("child", V), t("other_child", V)], text="[child,other_child].value"),
        E("[child,children.items].value", [t("child", V), t("children", items(V))],
          text="[child,children.items].value"),
        E("l:[value, child.value]", [t("value"), t("child", V)], form="textlist"),
        E("l:mixed", [t("other"), t("children", li(V))], form="mixedlist"),
        E("value, value", [t("value"), t("value")]),
        E("x:value|cmap", [t("value"), t("cmap", di(V))], form="expr"),
    ]
    bad = [
        E("nope", [t("nope")]),
        E("child.nope", [t("child", t("nope"))]),
        E("child:nope", [t("child", t("nope"), notify=False)]),
        E("child.child.nope", [t("child", t("child", t("nope")))]),
        E("children.items.nope", [t("children", items(t("nope")))]),
        E("cmap.items.nope", [t("cmap", items(t("nope")))]),
        E("x:value.list", [t("value", li())]),
        E("x:children.dict", [t("children", di())]),
        E("x:child.list.value", [t("child", li(V))]),
        E("children.*", [t("children", anyt())]),
        E("nope, child.nope", [t("nope"), t("child", t("nope"))]),
        # these have a healthy sibling / parallel graph: skipped by the main
        # stratum (drawn in the enumeration strata), listed so that the skip is counted
        E("child.[value,nope]", [t("child", V, t("nope"))]),
        E("value, nope", [t("value"), t("nope")]),
        E("nope, value", [t("nope"), t("value")]),
    ]
    return ok, bad


def mutation(rng, layers, rank, objs, dup=False):
    """Pick one structural change that certainly changes something.
    Returns (description, observables fired, action) or None."""
    o = rng.choice([x for x in objs if rank[sn_of(x)] < len(layers) - 1])
    nxt = layers[rank[sn_of(o)] + 1]
    s = sn_of(o)
    k = rng.choice(DUP_KINDS) if dup else rng.randrange(21)
    if k >= 16:
        return multi_item_mutation(rng, o, nxt, s, k)
    if k <= 2:
        name = "child" if k < 2 else "other_child"
        cur = getattr(o, name)
        cands = [x for x in nxt if x is not cur]
        if cur is not None and rng.random() < 0.15:
            new = None
        else:
            new = rng.choice(cands)
        return ("#%d.%s = %s" % (s, name, "None" if new is None else "#%d" % sn_of(new)),
                [("t", s, name)], lambda: setattr(o, name, new))
    if k <= 8:
        lst = o.children
        ob = [("c", s, "children")]
        x = rng.choice(nxt)
        if k == 3:
            return ("#%d.children.append(#%d)" % (s, sn_of(x)), ob, lambda: lst.append(x))
        if k == 4:
            return ("#%d.children.insert(0, #%d)" % (s, sn_of(x)), ob, lambda: lst.insert(0, x))
        if k == 5:
            if not lst:
                return None
            return ("#%d.children.pop()" % s, ob, lambda: lst.pop())
        if k == 6:
            if not lst:
                return None
            i = rng.randrange(len(lst))
            if lst[i] is x:
                return None
            return ("#%d.children[%d] = #%d" % (s, i, sn_of(x)), ob, lambda: lst.__setitem__(i, x))
        if k == 7:
            if not lst:
                return None
            return ("del #%d.children[0]" % s, ob, lambda: lst.__delitem__(0))
        new = [rng.choice(nxt) for _ in range(rng.randint(0, 3))]
        if [id(a) for a in new] == [id(a) for a in lst]:
            new.append(x)
        return ("#%d.children = %r" % (s, [sn_of(a) for a in new]), [("t", s, "children")],
                lambda: setattr(o, "children", new))
    if k <= 12:
        d = o.cmap
        ob = [("c", s, "cmap")]
        x = rng.choice(nxt)
        if k == 9:
            key = "k%d" % rng.randrange(4)
            if key in d and d[key] is x:
                return None
            return ("#%d.cmap[%r] = #%d" % (s, key, sn_of(x)), ob, lambda: d.__setitem__(key, x))
        if k == 10:
            if not d:
                return None
            key = sorted(d)[0]
            return ("del #%d.cmap[%r]" % (s, key), ob, lambda: d.__delitem__(key))
        new = {"k%d" % i: rng.choice(nxt) for i in range(rng.randint(0, 2))}
        if {a: id(b) for a, b in new.items()} == {a: id(b) for a, b in d.items()}:
            new["z"] = x
        return ("#%d.cmap = %r" % (s, {a: sn_of(b) for a, b in new.items()}), [("t", s, "cmap")],
                lambda: setattr(o, "cmap", new))
    st = o.cset
    ob = [("c", s, "cset")]
    x = rng.choice(nxt)
    if k == 13:
        if x in st:
            return None
        return ("#%d.cset.add(#%d)" % (s, sn_of(x)), ob, lambda: st.add(x))
    if k == 14:
        if not st:
            return None
        y = sorted(st, key=sn_of)[0]
        return ("#%d.cset.remove(#%d)" % (s, sn_of(y)), ob, lambda: st.remove(y))
    new = set(rng.sample(nxt, rng.randint(0, 2)))
    if new == set(st):
        new = set(st) ^ {x}
    return ("#%d.cset = %r" % (s, sorted(sn_of(a) for a in new)), [("t", s, "cset")],
            lambda: setattr(o, "cset", new))


DUP_KINDS = (16, 16, 16, 17, 17, 17, 18, 18, 19, 20, 3, 4, 5, 6, 7, 8)
MULTIPLICITY = {"last": False}


def multi_item_mutation(rng, o, nxt, s, k):
    """ONE container event that removes and adds several items at once; the
    replacement overlaps the removed objects, so an object can stay in the
    container while the number of its occurrences changes."""
    if k == 20:
        d = o.cmap
        keys = ["k%d" % i for i in range(4)]
        pool = list(d.values()) + list(nxt)
        upd = {key: rng.choice(pool) for key in rng.sample(keys, rng.randint(1, 3))}
        if all(key in d and d[key] is v for key, v in upd.items()):
            return None                       # update() with nothing new: whether an event is due is C06's business
        before = collections.Counter(id(v) for key, v in d.items() if key in upd)
        after = collections.Counter(id(v) for v in upd.values())
        multi = any(before[i] != after[i] for i in before if i in after)
        return ("#%d.cmap.update(%r)" % (s, {a: sn_of(b) for a, b in upd.items()}),
                [("c", s, "cmap")], lambda: d.update(upd), multi)
    lst = o.children
    L = len(lst)
    if k == 19:                               # whole-list replacement through the slice
        sl = slice(None, None, None)
    elif k == 18:                             # extended slice: same number of items
        if L < 2:
            return None
        sl = slice(rng.choice([None, 0, 1]), None, rng.choice([2, 2, -1, -2, 3]))
    else:
        i = rng.randint(0, L)
        j = rng.randint(i, L)
        sl = slice(i, j, None)
    removed = lst[sl]
    pool = list(removed) * 2 + list(lst) + list(nxt)
    n = len(removed) if k == 18 else rng.randint(0, 3)
    new = [rng.choice(pool) for _ in range(n)]
    if not removed and not new:
        return None
    if [id(a) for a in new] == [id(a) for a in removed]:
        return None                           # same content: nothing the model could probe
    before = collections.Counter(id(a) for a in removed)
    after = collections.Counter(id(a) for a in new)
    multi = any(before[i] != after[i] for i in before if i in after)
    txt = "%s:%s%s" % ("" if sl.start is None else sl.start, "" if sl.stop is None else sl.stop,
                       "" if sl.step is None else ":%d" % sl.step)
    return ("#%d.children[%s] = %r" % (s, txt, [sn_of(a) for a in new]), [("c", s, "children")],
            lambda: lst.__setitem__(sl, new), multi)


def do_mutation(S, rng, layers, rank, objs, dup=False):
    """One structural change + its own event check.  'skip' / 'ok' / 'late'."""
    ctx = S.ctx
    m = mutation(rng, layers, rank, objs, dup=dup)
    if m is None:
        return "skip"
    desc, obs, action = m[:3]
    multi = len(m) > 3 and m[3]
    S.trace.append(("mutate", desc))
    S.fire("mutation", obs, action, desc, thread_rng=rng, tolerate_late=True)
    m = action = None                         # the closures hold pool objects
    S.invalidate()
    ctx.count("mutations")
    if multi:
        ctx.count("multiplicity_changing_events")
        if S.total():
            ctx.count("multiplicity_changing_events_while_registered")
            ctx.sig(S.stratum, "multiplicity-change", min(S.total(), 3))
    late = [gk for (kri, khi, gk, kd), n in S.counts.items() if n > 0
            and not S.analysis(kri, S.graphs[gk]).ok]
    if late:
        ctx.count("histories_ended_by_late_failure")
        return "late"
    return "ok"


def main_history(ctx, h, OK, BAD, dup=False):
    rng = ctx.rng("D" if dup else "M", h)
    objs, layers, rank = build_pool(rng, dup=dup)
    S = Session(ctx, "duplicates" if dup else "main", objs, layers[0])
    del objs                                  # S.objs is the only list holding the pool
    S.set_base()
    nsteps = 15
    mine = rng.sample(OK, 3) + [rng.choice(OK[:12])]
    if dup:                                   # expressions that go through container items
        through = [e for e in OK if any(k in e.shape for k in ("I", "L", "D"))]
        mine = rng.sample(through, 3) + [rng.choice(through)]
    dropped_root = dropped_owner = False
    start_ui = rng.choice(["A", "A", "none", "none", "B"])
    if start_ui != "A":
        S.switch_ui(start_ui)
        if start_ui == "none":
            ctx.count("histories_starting_without_ui_handler")
    for step in range(nsteps):
        r = rng.random()
        if rng.random() < 0.07:               # a toolkit installs / replaces / removes its handler
            S.switch_ui(rng.choice([x for x in ("A", "B", "none", "none") if x != CH.ui_state]))
        if dup and r >= 0.90:                 # no gc / drop steps here: more mutations instead
            r = 0.75
        if dup and 0.34 <= r < 0.44:
            r = 0.75
        nroots = len(S.roots)
        ri = 0 if (nroots == 1 or rng.random() < 0.7) else 1
        hi = rng.randrange(3)
        disp = "same" if rng.random() < 0.6 else "ui"
        if r < 0.34:
            live = [k for k, n in S.counts.items() if n > 0]
            e = rng.choice(mine)
            if live and rng.random() < 0.4:   # the same handler/expression/dispatch once more
                kri, khi, gk, kd = rng.choice(live)
                cands = [c for c in mine if any(g.key == gk for g in c.graphs)]
                if cands:
                    ri, hi, disp, e = kri, khi, kd, rng.choice(cands)
            S.add(ri, hi, e, disp)
        elif r < 0.44:
            # a failing registration (only when it fails *now* and has no healthy
            # sibling subtree / parallel graph: those are the enumeration strata)
            e = rng.choice(BAD)
            an = [S.analysis(ri, g) for g in e.graphs]
            if all(a.ok for a in an):
                ctx.count("main_skipped_not_failing_now")
                continue
            if any((not a.ok) and a.healthy for a in an) or any(a.ok and a.attach for a in an):
                ctx.count("main_skipped_open_pattern")
                continue
            S.add(ri, hi, e, disp)
        elif r < 0.70:
            live = [k for k, n in S.counts.items() if n > 0]
            if live and rng.random() < 0.75:
                kri, khi, gk, kd = rng.choice(live)
                cands = [e for e in mine if any(g.key == gk for g in e.graphs)]
                e = rng.choice(cands) if cands else Entry("single", [S.graphs[gk]], form="expr")
                ri, hi, disp = kri, khi, kd
            else:
                e = rng.choice(mine + BAD[:4])
            need = collections.Counter(g.key for g in e.graphs)
            have_all = all(S.counts[(ri, hi, k, disp)] >= n for k, n in need.items())
            have_any = any(S.counts[(ri, hi, k, disp)] >= 1 for k in need)
            if have_any and not have_all:
                ctx.count("main_skipped_open_pattern")
                continue
            S.remove(ri, hi, e, disp)
        elif r < 0.90:
            res = do_mutation(S, rng, layers, rank, S.objs, dup=dup)
            if res == "skip":
                continue
            if res == "late":
                return
        elif r < 0.94:
            S.trace.append(("gc.collect",))
            gc.collect()
        elif r < 0.97 and not dropped_owner and step >= 4:
            # the bound-method owner dies with registrations outstanding
            dropped_owner = True
            S.trace.append(("drop-owner",))
            n_live = sum(n for (kri, khi, gk, kd), n in S.counts.items() if khi == 1)
            w = weakref.ref(S.owner)
            S.owner = None
            gc.collect()
            ctx.ev()
            ctx.count("weak_deaths_checked")
            ctx.sig("main", "drop-owner", min(n_live, 2))
            if w() is not None:
                S.fail("weak/owner-kept-alive", "the owner of a bound-method handler with %d outstanding "
                       "registration(s) survived del + gc.collect()" % n_live)
            for k in [k for k in S.counts if k[1] == 1]:
                del S.counts[k]
            if n_live:
                S.tainted = True
            S.owner = Owner(S.rec, 1)
        elif not dropped_root and step >= 4 and len(S.roots) == 2:
            dropped_root = True
            S.trace.append(("drop-target", 1))
            n_live = sum(n for (kri, khi, gk, kd), n in S.counts.items() if kri == 1)
            victim = S.roots.pop(1)
            S.objs.remove(victim)
            layers[0].remove(victim)
            w = weakref.ref(victim)
            vsn = sn_of(victim)
            S.base = {k: v for k, v in S.base.items() if k[0] != vsn}
            del victim
            S.invalidate()
            gc.collect()
            ctx.ev()
            ctx.count("weak_deaths_checked")
            ctx.sig("main", "drop-target", min(n_live, 2))
            if w() is not None:
                S.fail("weak/target-kept-alive", "the object observe() was called on, with %d outstanding "
                       "registration(s), survived del + gc.collect()" % n_live)
            for k in [k for k in S.counts if k[0] == 1]:
                del S.counts[k]
            if n_live:
                S.tainted = True
        else:
            continue
        S.probe_all(rng)
        if S.total() == 0:
            S.zero_check("step %d" % step)
    # unwind: every outstanding registration comes off, then one more must fail
    S.trace.append(("unwind",))
    last = [k for k, n in S.counts.items() if n > 0]
    S.unwind(rng)
    S.probe_all()
    if last:
        ri, hi, gk, disp = rng.choice(last)
        S.remove(ri, hi, Entry("once-more", [S.graphs[gk]], form="expr"), disp)
        S.probe_all(objs=S.roots)
    if h < 2 * ctx.nshards:
        ctx.sample({"stratum": "main", "history": S.trace[:8]})


# ---------------------------------------------------------------------------
# re-definition of traits at run time (add_trait / remove_trait) between registration and
# unregistration
# ---------------------------------------------------------------------------
LEAF_KINDS = ("int", "float", "any")
LINK_KINDS = ("inst", "instnode")
CLASS_SPECS = {
    "value": {"kind": "int"}, "other": {"kind": "int"}, "tagged": {"kind": "int", "tag": True},
    "child": {"kind": "inst", "link": True}, "other_child": {"kind": "inst", "link": True},
}
REDEF_PATTERNS = ("readd", "over-class", "remove+add", "add-new", "remove", "readd-membership",
                  "over-class-membership", "remove-class-clone")
# Three things the unchanged tree is known to get wrong around re-definition; an operation that meets
# one of these structural conditions puts the rest of its history under that mechanism key
KEY_NESTED = "redefinition/remove_trait-leaves-observers-on-old-value"
KEY_CLONE = "redefinition/remove_trait-of-observed-class-trait-drops-notifiers"
KEY_FILTER = "redefinition/metadata-change-not-seen-by-filter-observers"


def graph_nodes(real):
    yield real
    for k in real[4]:
        for n in graph_nodes(k):
            yield n


def open_mechanism(S, pattern, o, name, old_spec, flipped):
    """Mechanism key when this operation meets the structural condition of an open finding."""
    nodes = [n for (ri, hi, gk, d), c in S.counts.items() if c > 0 for n in graph_nodes(S.graphs[gk].real)]
    if not nodes:
        return None
    if flipped and any(n[0] == "M" and n[1] == flipped for n in nodes):
        return KEY_FILTER
    if pattern in ("remove", "remove+add", "remove-class-clone"):
        flags = [f for f in ("tag", "link") if old_spec.get(f)]
        if pattern == "remove-class-clone" and any(
                (n[0] == "t" and n[1] == name) or n[0] == "A" or (n[0] == "M" and n[1] in flags)
                for n in nodes):
            return KEY_CLONE
        v = o.__dict__.get(name)
        if isinstance(v, HasTraits) and any(
                n[4] and ((n[0] == "t" and n[1] == name) or n[0] == "A" or (n[0] == "M" and n[1] in flags))
                for n in nodes):
            return KEY_NESTED
    return None


def make_trait(spec):
    md = {}
    if spec.get("tag"):
        md["tag"] = True
    if spec.get("link"):
        md["link"] = True
    k = spec["kind"]
    if k == "int":
        return Int(**md)
    if k == "float":
        return Float(**md)
    if k == "any":
        return Any(0, **md)
    if k == "inst":
        return Instance(HasTraits, **md)
    return Instance(Node, **md)


def spec_text(spec):
    return "%s(%s)" % ({"int": "Int", "float": "Float", "any": "Any", "inst": "Instance(HasTraits",
                        "instnode": "Instance(Node"}[spec["kind"]].rstrip("("),
                       ", ".join(k + "=True" for k in ("tag", "link") if spec.get(k)))


def retyped(spec, rng, flip=False):
    new = dict(spec)
    kinds = LEAF_KINDS if spec["kind"] in LEAF_KINDS else LINK_KINDS
    new["kind"] = rng.choice(kinds)
    if flip:
        k = "tag" if spec["kind"] in LEAF_KINDS else "link"
        new[k] = not spec.get(k)
    return new


def redefinition(S, rng, cands, layers, rank, pattern):
    """One run-time (re)definition.  'skip' / 'ok' / 'late'."""
    ctx = S.ctx
    o = rng.choice(cands)
    sn = sn_of(o)
    d = DYN.setdefault(sn, {})
    cls_names = NAMES[type(o)]
    dyn_present = sorted(n for n in d if n not in cls_names)
    obs = []
    base_after = {}

    if pattern == "set-link":
        links = [n for n in dyn_present if d[n]["kind"] in LINK_KINDS]
        if not links:
            return "skip"
        name = rng.choice(links)
        cur = o.__dict__.get(name)
        nxt = [x for x in layers[rank[sn] + 1] if x is not cur]
        new = None if (cur is not None and rng.random() < 0.2) else rng.choice(nxt)
        desc = "#%d.%s = %s" % (sn, name, "None" if new is None else "#%d" % sn_of(new))
        obs = [("t", sn, name)]

        def action():
            setattr(o, name, new)

        def commit():
            pass
    elif pattern == "add-new":
        free = [n for n in DYN_UNIVERSE if n not in d]
        if not free:
            return "skip"
        name = rng.choice(free)
        spec = ({"kind": rng.choice(LINK_KINDS), "link": True} if name == "dnode"
                else {"kind": rng.choice(LEAF_KINDS), "tag": rng.random() < 0.5})
        desc = "#%d.add_trait(%r, %s)  (new name)" % (sn, name, spec_text(spec))
        obs = [("t", sn, "trait_added")]
        base_after[(sn, name)] = 0

        def action():
            o.add_trait(name, make_trait(spec))

        def commit():
            d[name] = spec
    elif pattern in ("readd", "readd-membership", "over-class", "over-class-membership"):
        if pattern.startswith("readd"):
            if not dyn_present:
                return "skip"
            name = rng.choice(dyn_present)
            old = d[name]
        else:
            name = rng.choice(sorted(CLASS_SPECS))
            old = d.get(name, CLASS_SPECS[name])
        spec = retyped(old, rng, flip=pattern.endswith("membership"))
        desc = "#%d.add_trait(%r, %s)  (was %s%s)" % (sn, name, spec_text(spec), spec_text(old),
                                                     ", a class trait" if name in cls_names else "")

        def action():
            o.add_trait(name, make_trait(spec))

        def commit():
            d[name] = spec
    elif pattern == "remove+add":
        if not dyn_present:
            return "skip"
        name = rng.choice(dyn_present)
        spec = retyped(d[name], rng)
        desc = "#%d.remove_trait(%r); #%d.add_trait(%r, %s)" % (sn, name, sn, name, spec_text(spec))
        obs = [("t", sn, "trait_added")]

        def action():
            o.remove_trait(name)
            o.add_trait(name, make_trait(spec))

        def commit():
            d[name] = spec
    elif pattern == "remove":
        if not dyn_present:
            return "skip"
        name = rng.choice(dyn_present)
        desc = "#%d.remove_trait(%r)" % (sn, name)
        base_after[(sn, name)] = -1

        def action():
            o.remove_trait(name)

        def commit():
            del d[name]
    elif pattern == "remove-class-clone":
        name = rng.choice(sorted(CLASS_SPECS))
        desc = "#%d.remove_trait(%r)  (a class trait)" % (sn, name)

        def action():
            o.remove_trait(name)

        def commit():
            d.pop(name, None)
    else:
        raise AssertionError(pattern)
    S.trace.append(("redefine", desc))
    if pattern not in ("set-link", "add-new") and S.key_prefix is None:
        old_spec = d.get(name) or CLASS_SPECS.get(name) or {}
        flipped = None
        if pattern.endswith("membership"):
            flipped = "tag" if old_spec["kind"] in LEAF_KINDS else "link"
        key = open_mechanism(S, pattern, o, name, old_spec, flipped)
        if key:
            S.key_prefix = key
            S.stratum = "redefinition-open"
            ctx.count("redefinition_open_pattern_histories")
    S.fire("redefinition", obs, action, desc, tolerate_late=True)
    commit()
    action = commit = None
    S.invalidate()
    if S.base is not None:
        S.base.update(base_after)
    ctx.count("redefinitions")
    ctx.count("redefinitions/" + pattern)
    if S.total():
        ctx.count("redefinitions_while_registered")
    ctx.sig("redefinition", pattern, rank[sn], min(S.total(), 3))
    late = [gk for (kri, khi, gk, kd), n in S.counts.items() if n > 0
            and not S.analysis(kri, S.graphs[gk]).ok]
    if late:
        ctx.count("histories_ended_by_late_failure")
        return "late"
    return "ok"


def redef_entries():
    E = Entry
    d0 = t("dyn0")
    d0o = t("dyn0", optional=True)
    return [
        E("dyn0", [d0]), E("dyn0?", [d0o]), E("late?", [t("late", optional=True)]),
        E("dyn1?", [t("dyn1", optional=True)]),
        E("dnode.value", [t("dnode", V)]), E("dnode:value", [t("dnode", V, notify=False)]),
        E("dnode.dyn0?", [t("dnode", d0o)]), E("dnode?.value", [t("dnode", V, optional=True)]),
        E("+tag", [meta("tag")]), E("+link.value", [meta("link", V)]), E("*", [anyt()]),
        E("child.dyn0", [t("child", d0)]), E("child.dyn0?", [t("child", d0o)]),
        E("child.+tag", [t("child", meta("tag"))]), E("child.dnode.value", [t("child", t("dnode", V))]),
        E("children.items.dyn0?", [t("children", items(d0o))]), E("child.*", [t("child", anyt())]),
        E("child.late?", [t("child", t("late", optional=True))]),
        E("value", [t("value")]), E("tagged", [t("tagged")]), E("child.value", [t("child", V)]),
        E("child:value", [t("child", V, notify=False)]), E("dyn0, value", [d0, t("value")]),
        E("other_child.other", [t("other_child", t("other"))]),
    ]


def redef_history(ctx, h, pattern, entries):
    rng = ctx.rng("R", h, pattern)
    objs, layers, rank = build_pool(rng)
    S = Session(ctx, "redefinition", objs, layers[0], extra={"pattern": pattern})
    del objs
    cands = layers[0] + layers[1]
    for o in cands:                           # run-time traits that exist before the first registration
        sn = sn_of(o)
        d = DYN.setdefault(sn, {})
        d["dyn0"] = {"kind": rng.choice(LEAF_KINDS), "tag": rng.random() < 0.5}
        o.add_trait("dyn0", make_trait(d["dyn0"]))
        o.dyn0 = 10 * sn + 3
        d["dnode"] = {"kind": rng.choice(LINK_KINDS), "link": True}
        o.add_trait("dnode", make_trait(d["dnode"]))
        if rng.random() < 0.7:
            o.dnode = rng.choice(layers[rank[sn] + 1])
    S.set_base()
    mine = rng.sample(entries, 4)
    for step in range(14):
        r = rng.random()
        ri = 0 if rng.random() < 0.7 else 1
        hi = rng.randrange(3)
        disp = "same" if rng.random() < 0.7 else "ui"
        if r < 0.30:
            live = [k for k, n in S.counts.items() if n > 0]
            e = rng.choice(mine)
            if live and rng.random() < 0.4:
                kri, khi, gk, kd = rng.choice(live)
                cs = [c for c in mine if any(g.key == gk for g in c.graphs)]
                if cs:
                    ri, hi, disp, e = kri, khi, kd, rng.choice(cs)
            if not all(S.analysis(ri, g).ok for g in e.graphs):
                continue                      # failing registrations are other strata's business
            S.add(ri, hi, e, disp)
        elif r < 0.50:
            live = [k for k, n in S.counts.items() if n > 0]
            if live and rng.random() < 0.8:
                ri, hi, gk, disp = rng.choice(live)
                cs = [c for c in mine if any(g.key == gk for g in c.graphs)]
                e = rng.choice(cs) if cs else Entry("single", [S.graphs[gk]], form="expr")
            else:
                e = rng.choice(mine)
            need = collections.Counter(g.key for g in e.graphs)
            have_all = all(S.counts[(ri, hi, k, disp)] >= n for k, n in need.items())
            have_any = any(S.counts[(ri, hi, k, disp)] >= 1 for k in need)
            if (have_any and not have_all) or not all(S.analysis(ri, g).ok for g in e.graphs):
                continue
            S.remove(ri, hi, e, disp)
        elif r < 0.86:
            pat = pattern if rng.random() < 0.7 else rng.choice(["set-link", "add-new"])
            res = redefinition(S, rng, cands, layers, rank, pat)
            if res == "skip":
                continue
            if res == "late":
                return
        else:
            res = do_mutation(S, rng, layers, rank, S.objs)
            if res == "skip":
                continue
            if res == "late":
                return
        S.probe_all(rng)
        if S.total() == 0:
            S.zero_check("step %d" % step)
    S.trace.append(("unwind",))
    last = [k for k, n in S.counts.items() if n > 0]
    S.unwind(rng)
    S.probe_all()
    if last:
        ri, hi, gk, disp = rng.choice(last)
        S.remove(ri, hi, Entry("once-more", [S.graphs[gk]], form="expr"), disp)
        S.probe_all(objs=S.roots)
    if h < 2 * ctx.nshards and pattern == "readd":
        ctx.sample({"stratum": "redefinition", "pattern": pattern, "history": S.trace[:8]})


# ---------------------------------------------------------------------------
# failure-position enumeration
# ---------------------------------------------------------------------------
LINKS = ("children", "cmap", "cset", "bag", "child")


def tree_positions(D, F):
    """BFS list of paths (tuples of child indices) of the full tree, root excluded."""
    out = []
    level = [()]
    for d in range(D):
        nxt = []
        for p in level:
            for i in range(F):
                nxt.append(p + (i,))
        out.extend(nxt)
        level = nxt
    return out


def build_tree(D, F, links, bad_path, bad_kind):
    """Tree whose level-l objects link to F children through links[l].
    The object at bad_path is a Leaf (bad_kind 'leaf') or keeps a plain list in
    `bag` (bad_kind 'plain-list')."""
    counter = itertools.count()
    objs = []

    def make(path):
        depth = len(path)
        if path == bad_path and bad_kind == "leaf":
            o = Leaf(sn=next(counter))
            o.other = 1
            objs.append(o)
            return o
        o = Node(sn=next(counter))
        objs.append(o)
        o.children, o.cmap, o.cset, o.child, o.other_child, o.bag
        o.value = 0
        o.other = 0
        o.tagged = 0
        if depth < D:
            kids = [make(path + (i,)) for i in range(F)]
            link = links[depth]
            if link == "children":
                o.children = kids
            elif link == "cmap":
                o.cmap = {"k%d" % i: k for i, k in enumerate(kids)}
            elif link == "cset":
                o.cset = set(kids)
            elif link == "child":
                o.child = kids[0]
            else:
                o.bag = list(kids) if (path == bad_path and bad_kind == "plain-list") else TraitList(kids)
        return o
    root = make(())
    return root, objs


def chain(links, upto, notifies, explicit, leaf):
    """Expression tree following links[0:upto]; `leaf` (a surface node or None) below."""
    node = leaf
    for l in range(upto - 1, -1, -1):
        link, n = links[l], notifies[l]
        kids = () if node is None else (node,)
        if link == "child":
            node = t("child", *kids, notify=n)
        elif link == "bag":
            node = t("bag", li(*kids, notify=n), notify=n)
        elif explicit[l]:
            f = {"children": li, "cmap": di, "cset": si}[link]
            node = t(link, f(*kids, notify=n), notify=n)
        else:
            node = t(link, items(*kids, notify=n), notify=n)
    return node


def failpos_case(ctx, cid, D, F, links, pos, variant):
    rng = ctx.rng("F", cid, pos, variant)
    paths = tree_positions(D, F)
    bad_path = paths[pos] if pos is not None else None
    bad_kind = "leaf"
    if bad_path is not None and len(bad_path) < D and links[len(bad_path)] == "bag" and rng.random() < 0.6:
        bad_kind = "plain-list"
    root, objs = build_tree(D, F, links, bad_path, bad_kind)
    spare = Node(sn=len(objs))                # linked under the root later (structural probe)
    spare.children, spare.cmap, spare.cset, spare.child, spare.other_child, spare.bag
    spare.value = spare.other = spare.tagged = 0
    objs.append(spare)
    notifies = [rng.random() < 0.6 for _ in range(D)]
    explicit = [rng.random() < 0.4 for _ in range(D)]
    form = rng.choice(["text", "expr", "exprlist", "textlist"])
    full = Entry("chain", [chain(links, D, notifies, explicit, t("value"))], form=form)
    hi = rng.randrange(3)
    disp = "same" if rng.random() < 0.6 else "ui"
    S = Session(ctx, "failpos", objs, [root],
                extra={"tree": {"depth": D, "fanout": F, "links": list(links[:D]),
                                "bad_path": bad_path, "bad_kind": bad_kind if bad_path is not None else None}})
    S.set_base()
    bd = len(bad_path) if bad_path is not None else D + 1
    an = S.analysis(0, full.graphs[0])
    first = bad_path is None or not an.healthy
    # pre-registrations that do not reach the bad object and share notifiers with the failing walk
    npre = rng.choice([0, 0, 1, 1, 2])
    for _ in range(npre):
        upto = rng.randint(1, max(1, min(D, bd)))
        depth_ok = upto - 1 < bd          # objects visited lie at depth <= upto-1
        if not depth_ok:
            continue
        leafnode = None
        pn = list(notifies)
        if rng.random() < 0.5:
            pn = [rng.random() < 0.6 for _ in range(D)]
        pn[upto - 1] = True
        pre = Entry("pre", [chain(links, upto, pn, explicit, leafnode)], form=rng.choice(["text", "expr"]))
        if not S.analysis(0, pre.graphs[0]).ok:
            continue
        who = hi if rng.random() < 0.7 else rng.randrange(3)
        pd = disp if rng.random() < 0.7 else rng.choice(["same", "ui"])
        S.add(0, who, pre, pd)
    ok = S.add(0, hi, full, disp)
    if not ok:
        ctx.count("failpos_first_path_held" if first else "failpos_sibling_first_in_order_held")
    else:
        ctx.count("failpos_control_registered")
    if rng.random() < 0.3:
        S.add(0, hi, full, disp)              # again: still atomic / counted
    S.probe_all(rng)
    # a structural probe under the root: maintainers left behind would hook the new object or raise
    link = links[0]
    rs = sn_of(root)
    if True:                                  # the root itself is never the bad object
        if link == "children":
            obs, act = [("c", rs, "children")], (lambda: root.children.append(spare))
        elif link == "cmap":
            obs, act = [("c", rs, "cmap")], (lambda: root.cmap.__setitem__("spare", spare))
        elif link == "cset":
            obs, act = [("c", rs, "cset")], (lambda: root.cset.add(spare))
        elif link == "bag":
            obs, act = [("c", rs, "bag")], (lambda: root.bag.append(spare))
        else:
            obs, act = [("t", rs, "child")], (lambda: setattr(root, "child", spare))
        S.trace.append(("mutate", "link the spare node under the root through %s" % link))
        S.fire("mutation", obs, act, "root.%s gets a new node" % link)
        S.invalidate()
        ctx.count("mutations")
        late = [gk for (kri, khi, gk, kd), n in S.counts.items() if n > 0
                and not S.analysis(kri, S.graphs[gk]).ok]
        if late:
            ctx.count("histories_ended_by_late_failure")
            return
        S.probe_all()
    S.unwind(rng)
    S.probe_all()


def failpos_configs(ctx):
    cfgs = [(1, 1), (1, 2), (1, 3), (2, 1), (2, 2), (2, 3), (3, 1), (3, 2), (3, 3), (4, 1), (4, 2)]
    if not ctx.quick:
        cfgs.append((4, 3))
    out = []
    nlinks = ctx.scale(5, 14)
    for (D, F) in cfgs:
        for li_ in range(nlinks):
            out.append((D, F, li_))
    return out


# ---------------------------------------------------------------------------
# multi-graph and branch-sibling enumeration
# ---------------------------------------------------------------------------
def small_graph(rng):
    objs, layers, rank = build_pool(rng)
    for r in range(len(layers) - 1):          # every link present: every healthy graph attaches
        for o in layers[r]:
            nxt = layers[r + 1]
            if o.child is None:
                o.child = nxt[0]
            if o.other_child is None:
                o.other_child = nxt[-1]
            if not o.children:
                o.children = [nxt[0]]
            if not o.cmap:
                o.cmap = {"k0": nxt[0]}
            if not o.cset:
                o.cset = {nxt[-1]}
    return objs, layers, rank


def healthy_singles():
    return [t("value"), t("other"), t("child", V), t("child", V, notify=False), t("other_child", V),
            t("children", items(V)), t("cmap", items(V)), t("cset", items(V)), meta("tag"),
            t("child", t("child", V)), t("children"), t("children", li(V)), t("child", t("other")),
            t("children", items(t("children", items(V)))), anyt(), t("child", anyt())]


def failing_singles():
    return [t("nope"), t("child", t("nope")), t("children", items(t("nope"))), t("value", li()),
            t("children", di()), t("child", t("child", t("nope")), notify=False)]


FORMS = ("text", "textlist", "expr", "exprlist", "mixedlist")


def multigraph_add_case(ctx, i, m, j, variant):
    rng = ctx.rng("GA", i, m, j, variant)
    objs, layers, rank = small_graph(rng)
    S = Session(ctx, "multigraph-add", objs, layers[0], extra={"graphs": m, "failing_index": j})
    S.set_base()
    good = rng.sample(healthy_singles(), m - 1)
    graphs = good[:j] + [rng.choice(failing_singles())] + good[j:]
    e = Entry("multi", graphs, form=rng.choice(FORMS))
    hi = rng.randrange(3)
    disp = rng.choice(["same", "ui"])
    if rng.random() < 0.4:                    # some of the healthy ones already registered
        for g in rng.sample(good, rng.randint(1, len(good))):
            S.add(0, hi, Entry("pre", [g]), disp)
    ctx.count("multigraph_add_cases")
    S.add(0, hi, e, disp)
    S.probe_all()
    S.unwind(rng)
    S.probe_all()


def multigraph_remove_case(ctx, i, m, mask, variant):
    rng = ctx.rng("GR", i, m, mask, variant)
    objs, layers, rank = small_graph(rng)
    S = Session(ctx, "multigraph-remove", objs, layers[0], extra={"graphs": m, "registered_mask": mask})
    S.set_base()
    graphs = rng.sample(healthy_singles(), m)
    e = Entry("multi", graphs, form=rng.choice(FORMS))
    hi = rng.randrange(3)
    disp = rng.choice(["same", "ui"])
    for b in range(m):
        if mask >> b & 1:
            S.add(0, hi, Entry("pre", [graphs[b]]), disp)
    if rng.random() < 0.3:                    # somebody else's registration must not help
        S.add(0, (hi + 1) % 3, e, disp)
    ctx.count("multigraph_remove_cases")
    S.remove(0, hi, e, disp)
    S.probe_all()
    S.unwind(rng)
    S.probe_all()


def branch_case(ctx, i, nb, j, variant):
    """One graph whose last level has nb branches, the j-th failing."""
    rng = ctx.rng("GB", i, nb, j, variant)
    objs, layers, rank = small_graph(rng)
    S = Session(ctx, "branch-sibling", objs, layers[0], extra={"branches": nb, "failing_index": j})
    S.set_base()
    leaves = rng.sample([t("value"), t("other"), t("tagged"), meta("tag"), t("child", V)], nb - 1)
    leaves = leaves[:j] + [rng.choice([t("nope"), t("value", li()), t("nope", V)])] + leaves[j:]
    n = rng.random() < 0.6
    prefix = rng.choice(["child", "children", "cmap", "link", "child.child"])
    if prefix == "child":
        g = t("child", *leaves, notify=n)
    elif prefix == "children":
        g = t("children", items(*leaves, notify=n), notify=n)
    elif prefix == "cmap":
        g = t("cmap", di(*leaves, notify=n), notify=n)
    elif prefix == "link":
        g = meta("link", *leaves, notify=n)
    else:
        g = t("child", t("child", *leaves, notify=n), notify=n)
    e = Entry("branches", [g], form=rng.choice(["text", "expr"]))
    hi = rng.randrange(3)
    disp = rng.choice(["same", "ui"])
    ctx.count("branch_cases")
    S.add(0, hi, e, disp)
    S.probe_all()
    S.unwind(rng)
    S.probe_all()


# ---------------------------------------------------------------------------
# weakness
# ---------------------------------------------------------------------------
WEAK_HITS = collections.Counter()


class WOwner:
    def __init__(self, tag):
        self.tag = tag

    def meth(self, event):
        WEAK_HITS[self.tag] += 1


class WNode(Node):
    def on_self(self, event):
        WEAK_HITS["self-method"] += 1


def weak_fn(event):
    WEAK_HITS["function"] += 1


for _table in (NAMES, CENSUS_EXTRA, TAGS, LEAF_PROBES, CONTAINERS):
    _table[WNode] = _table[Node]


WEAK_EXPRS = ["value", "child.value", "child:value", "children.items.value", "cmap.items.value",
              "cset.items.value", "child.child.value", "[child,children.items].value", "*", "child.*",
              "+tag", "children.items", "child.[value,other]", "children.items.children.items.value"]
WEAK_BAD = ["nope", "child.nope", "children.items.nope", "child.child.nope"]


def weak_setup(rng):
    """A dedicated root (not retained by the caller) over retained kids."""
    kids = [Node(sn=100 + i) for i in range(4)]
    for k in kids:
        k.children, k.cmap, k.cset
        k.value = 1
    kids[0].child = kids[2]
    kids[0].children = [kids[2], kids[3]]
    kids[1].children = [kids[3]]
    root = WNode(sn=99)
    root.child = kids[0]
    root.other_child = kids[1]
    root.children = [kids[0], kids[1], kids[0]]
    root.cmap = {"a": kids[1]}
    root.cset = {kids[0]}
    root.value = 1
    return root, kids


def poke(kids, rng, structural=True):
    """Change everything that used to be observed; returns the exception or None."""
    try:
        for k in kids:
            k.value += 1
            k.other += 1
            k.tagged += 1
        if structural:
            kids[0].child = kids[3]
            kids[0].children.append(kids[3])
            kids[0].children = [kids[2]]
            kids[1].children.pop()
            kids[0].child = None
    except Exception as e:                   # noqa: BLE001
        return e
    return None


def weak_case(ctx, i):
    rng = ctx.rng("W", i)
    mode = ("target", "owner", "both", "self-method", "after-failed-add", "after-removal")[i % 6]
    root, kids = weak_setup(rng)
    WEAK_HITS.clear()
    owner = WOwner("owner")
    nreg = rng.randint(1, 3)
    regs = []
    use_method = mode in ("owner", "both", "after-failed-add", "after-removal") or rng.random() < 0.5
    h = None
    try:
        for _ in range(nreg):
            e = rng.choice(WEAK_EXPRS)
            d = rng.choice(["same", "ui"])
            if mode == "self-method":
                h = root.on_self
            elif use_method:
                h = owner.meth
            else:
                h = weak_fn
            root.observe(h, e, dispatch=d)
            regs.append((e, d))
            if rng.random() < 0.3:
                root.observe(h, e, dispatch=d)
                regs.append((e, d))
        h = None                              # a bound method keeps its owner alive
        if mode == "after-failed-add":
            for _ in range(rng.randint(1, 2)):
                try:
                    root.observe(owner.meth, rng.choice(WEAK_BAD), dispatch=rng.choice(["same", "ui"]))
                except ValueError:
                    pass
        if mode == "after-removal":
            for e, d in regs:
                root.observe(owner.meth, e, dispatch=d, remove=True)
        # the registrations work before anything dies (otherwise silence later means nothing)
        kids[0].value += 1
        root.value += 1
    except Exception as exc:                  # noqa: BLE001
        h = None
        ctx.ev()
        ctx.violation("weak/setup-raised/%s" % type(exc).__name__,
                      "registering / removing healthy expressions on a dedicated object raised %r "
                      "(mode %s, registrations so far %r)" % (exc, mode, regs), {"mode": mode, "registrations": regs})
        return
    alive_calls = sum(WEAK_HITS.values())
    WEAK_HITS.clear()
    desc = {"mode": mode, "registrations": regs, "handler": "method" if use_method else "function"}
    wr_root = weakref.ref(root)
    wr_owner = weakref.ref(owner)
    die_root = mode in ("target", "both", "self-method")
    die_owner = mode in ("owner", "both", "after-failed-add", "after-removal")
    survivors = kids
    if die_root:
        del root
    if die_owner:
        del owner
    gc.collect()
    ctx.ev()
    ctx.count("weak_deaths_checked")
    ctx.sig("weak", mode, use_method, min(alive_calls, 2), len(set(d for _, d in regs)))
    if die_root and wr_root() is not None:
        ctx.violation("weak/target-kept-alive", "the observed object survived del + gc.collect() "
                      "(mode %s, registrations %r)" % (mode, regs), desc)
        return
    if die_owner and wr_owner() is not None:
        ctx.violation("weak/owner-kept-alive", "the owner of the bound-method handler survived del + "
                      "gc.collect() (mode %s, registrations %r)" % (mode, regs), desc)
        return
    exc = poke(survivors, rng)
    if exc is None and not die_root:
        try:
            r = wr_root()
            r.value += 1
            r.child = kids[1]
            r.children.append(kids[3])
            r.children = []
            del r
        except Exception as e:               # noqa: BLE001
            exc = e
    ctx.ev()
    if exc is not None:
        ctx.violation("weak/change-raised-after-death/%s" % type(exc).__name__,
                      "after the %s died a change raised %r (registrations %r)" % (mode, exc, regs), desc)
        return
    CH.drain()
    hits = sum(WEAK_HITS.values())
    if hits:
        ctx.violation("weak/call-after-death", "%d handler call(s) after the %s died (registrations %r)"
                      % (hits, mode, regs), desc)
        return
    if CH.captured:
        cap = list(CH.captured)
        del CH.captured[:]
        ctx.violation("weak/exception-channel-after-death/%s" % cap[0][1],
                      "exception channel after the %s died: %r" % (mode, cap[:3]), desc)
        return
    ctx.count("weak_cases_held")


# ---------------------------------------------------------------------------
# stale owners: targets that died WITHOUT unregistering, over long-lived shared objects,
# followed by a burst of fresh targets of the same class
# ---------------------------------------------------------------------------
def stale_entries():
    E = Entry
    C = lambda *k, **kw: t("child", *k, **kw)          # noqa: E731
    return [
        E("child.child.value", [C(C(V))]),
        E("child:child:value", [C(C(V, notify=False), notify=False)]),
        E("child.children.items.value", [C(t("children", items(V)))]),
        E("children.items.child.value", [t("children", items(C(V)))]),
        E("child.cmap.items.value", [C(t("cmap", items(V)))]),
        E("cmap.items.child.value", [t("cmap", items(C(V)))]),
        E("child.child.[value,other]", [C(C(V, t("other")))]),
        E("child.children.items.children.items.value", [C(t("children", items(t("children", items(V)))))]),
        E("x:child.children.list.value", [C(t("children", li(V)))]),
        E("x:child.extra?.value", [C(t("extra", V, optional=True))]),
        E("child.+link.value", [C(meta("link", V))]),
        E("[child,children.items].child.value", [C(C(V)), t("children", items(C(V)))],
          text="[child,children.items].child.value"),
        E("child.value", [C(V)]),
    ]


def stale_owner_case(ctx, i):
    rng = ctx.rng("SO", i)
    objs, layers, rank = small_graph(rng)
    shared_layers = [[]] + layers[1:]          # rank 0 is where the short-lived targets live
    shared = [o for layer in layers[1:] for o in layer]
    del objs, layers
    S = Session(ctx, "stale-owner", shared, [])
    S.tainted = True                           # dead entries stay behind: no baseline equality
    entries = stale_entries()
    entry = rng.choice(entries)
    hi = rng.choice([0, 0, 1, 2])              # the SAME long-lived handler for every target
    disp = "same" if rng.random() < 0.7 else "ui"
    n = rng.choice([1, 1, 2])
    serial = itertools.count(100)
    hubs = shared_layers[1]

    def link(r):
        r.children, r.cmap, r.cset, r.other_child, r.bag
        r.value = r.other = r.tagged = 0
        r.child = hubs[0]
        r.children = [hubs[0], hubs[-1]]
        r.cmap = {"k0": hubs[0]}
        r.cset = {hubs[-1]}
        S.roots.append(r)
        S.objs.append(r)
        S.invalidate()
        return len(S.roots) - 1

    def unlink(ri):
        r = S.roots[ri]
        S.roots[ri] = None
        S.objs.remove(r)
        for k in [k for k in S.counts if k[0] == ri]:
            del S.counts[k]
        S.invalidate()

    # -- phase 1: targets that register and die without unregistering ---------------
    nstale = rng.randint(1, 3)
    stale = []
    for _ in range(nstale):
        ri = link(WNode(sn=next(serial)))
        for _ in range(n):
            S.add(ri, hi, entry, disp)
        stale.append(ri)
    S.probe_all(rng, objs=shared)
    victims = [S.roots[ri] for ri in stale]
    dead_ids = set(id(v) for v in victims)     # only ever used to COUNT address reuse
    refs = [weakref.ref(v) for v in victims]
    for ri in stale:
        unlink(ri)                             # bookkeeping first; `victims` still holds them
    S.trace.append(("drop %d registered target(s) + gc.collect()" % nstale,))
    nburst = rng.randint(4, 8)
    del victims[:]                             # the targets die here (or in the collection below)
    burst = [WNode() for _ in range(nstale)]   # right away, same class: the freed blocks are handed out again
    gc.collect()
    burst += [WNode() for _ in range(nburst - nstale)]
    for r in burst:
        r.sn = next(serial)
    r = None
    ctx.ev()
    ctx.count("weak_deaths_checked", nstale)
    if any(w() is not None for w in refs):
        S.fail("weak/target-kept-alive", "a registered target survived del + gc.collect()")
    S.probe_all(objs=shared)
    do_mutation(S, rng, shared_layers, rank, shared, dup=rng.random() < 0.3)
    S.probe_all(objs=shared)
    # -- phase 2: fresh targets of the same class, same handler / expression / dispatch -
    keep = []
    for r in burst:
        reused = id(r) in dead_ids
        ctx.count("stale_owner_fresh_targets")
        if reused:
            ctx.count("stale_owner_address_reused")
        ri = link(r)
        r = None
        c0 = S.census()
        for _ in range(n):
            S.add(ri, hi, entry, disp)
        S.probe_all(rng, objs=shared)
        if rng.random() < 0.4:
            do_mutation(S, rng, shared_layers, rank, shared)
            S.probe_all(objs=shared)
            c0 = None                          # containers may have been replaced
        for _ in range(n):
            S.remove(ri, hi, entry, disp)
        ctx.ev()
        if c0 is not None:
            c1 = S.census()
            if c1 != c0:
                S.fail("stale-owner/census-differs-after-unregistration",
                       "a fresh target registered and unregistered %d time(s) over objects that still "
                       "carry the entries of a dead target, census before/after: %r"
                       % (n, census_diff(c0, c1)[:6]))
        S.probe_all(objs=shared)
        # a graph change on the shared objects must not bring the handler back
        for _ in range(2):
            do_mutation(S, rng, shared_layers, rank, shared)
        S.probe_all(objs=shared)
        S.remove(ri, hi, entry, disp)          # one further unregistration: NotifierNotFound
        ctx.count("stale_owner_cycles")
        ctx.sig("stale-owner", entry.shape, HANDLER_KINDS[hi], disp, n, reused)
        if rng.random() < 0.5:                 # leaves cleanly: its address may be reused as well
            unlink(ri)
        else:
            keep.append(ri)
    S.probe_all(objs=shared)


# ---------------------------------------------------------------------------
# thread stress (final-state oracle only)
# ---------------------------------------------------------------------------
def _warm(event):
    pass


def thread_stress(ctx, i):
    _thread_stress(ctx, i, shared=False)
    # calibration of the schedule generator only, never a verdict: with ONE handler shared by the
    # four threads the unlocked check-then-act sequences of add_to/remove_from do interleave
    _thread_stress(ctx, i, shared=True)


def _thread_stress(ctx, i, shared):
    rng = ctx.rng("T", i, shared)
    objs, layers, rank = small_graph(rng)
    roots = layers[0]
    exprs = ["value", "child.value", "children.items.value", "cmap.items.value",
             "[child,children.items].value", "child.child.value", "*"]
    # warm-up in the main thread: every instance trait the walks create exists before the threads
    # start (HasTraits.traits() iterates the instance-trait dict, which is not safe against a
    # concurrent first-time _trait(name, 2); that is not what this stress is about)
    for r_ in roots:
        for e_ in exprs:
            r_.observe(_warm, e_)
            r_.observe(_warm, e_, remove=True)
    base = census(objs)
    hits = [0] * 4
    errors = []
    nops = ctx.scale(300, 1500)
    start = threading.Barrier(5)

    def mk(n):
        def handler(event):
            hits[n] += 1
        return handler
    handlers = [mk(n) for n in range(4)]
    if shared:
        handlers = [handlers[0]] * 4
        nops = min(nops, 400)
    seeds = [rng.getrandbits(32) for _ in range(4)]
    stop = []

    def worker(n):
        import random
        r = random.Random(seeds[n])
        mine = collections.Counter()
        try:
            start.wait()
            for _ in range(nops):
                if r.random() < 0.55 or not +mine:
                    k = (r.randrange(len(roots)), r.choice(exprs), r.choice(["same", "ui"]))
                    roots[k[0]].observe(handlers[n], k[1], dispatch=k[2])
                    mine[k] += 1
                else:
                    k = r.choice(sorted(+mine))
                    roots[k[0]].observe(handlers[n], k[1], dispatch=k[2], remove=True)
                    mine[k] -= 1
            for k, c in sorted((+mine).items()):
                for _ in range(c):
                    roots[k[0]].observe(handlers[n], k[1], dispatch=k[2], remove=True)
        except Exception as e:               # noqa: BLE001
            errors.append((n, type(e).__name__, str(e)[:200]))

    def changer():
        try:
            start.wait()
            while not stop:
                for o in objs:
                    o.value += 1
        except Exception as e:               # noqa: BLE001
            errors.append(("changer", type(e).__name__, str(e)[:200]))
    old = sys.getswitchinterval()
    sys.setswitchinterval(1e-6)
    try:
        ths = [threading.Thread(target=worker, args=(n,)) for n in range(4)]
        ch = threading.Thread(target=changer)
        for th in ths:
            th.start()
        ch.start()
        for th in ths:
            th.join()
        stop.append(1)
        ch.join()
    finally:
        sys.setswitchinterval(old)
    if shared:
        del CH.queue[:]
        anomaly = bool(errors or CH.captured or census(objs) != base)
        del CH.captured[:]
        ctx.count("thread_shared_handler_calibration_runs")
        ctx.count("thread_shared_handler_anomalies", 1 if anomaly else 0)
        return
    ctx.count("ui_queued_in_stress", len(CH.queue))
    CH.drain()
    ctx.ev()
    ctx.count("thread_stress_runs")
    ctx.count("thread_stress_ops", 4 * nops)
    ctx.count("thread_stress_calls", sum(hits))
    desc = {"ops_per_thread": nops, "threads": 4}
    if errors:
        ctx.violation("threads/exception/%s" % errors[0][1],
                      "exception in a thread of the add/remove stress: %r" % errors[:3], desc)
        return
    if CH.captured:
        cap = list(CH.captured)
        del CH.captured[:]
        ctx.violation("threads/exception-channel/%s" % cap[0][1],
                      "exception channel during the thread stress: %r" % cap[:3], desc)
        return
    c = census(objs)
    if c != base:
        ctx.violation("threads/final-census-differs",
                      "after 4 threads (own handler each) removed everything they added the census "
                      "differs: %r" % census_diff(base, c)[:6], desc)
        return
    before = sum(hits)
    try:
        for o in objs:
            o.value += 1
        CH.drain()
    except Exception as e:                   # noqa: BLE001
        ctx.violation("threads/change-raised-after-unwind/%s" % type(e).__name__,
                      "a change after every thread unwound raised %r" % e, desc)
        return
    if sum(hits) != before:
        ctx.violation("threads/call-after-unwind", "handler called after every thread unwound", desc)
        return
    ctx.sig("threads", min(sum(hits), 1))


# ---------------------------------------------------------------------------
# the statement's literal instances (small, exhaustive) and the canonical failing shapes
# ---------------------------------------------------------------------------
def literal_counted(ctx, n, hi, disp, entry):
    """Register the same handler/expression/dispatch n times, unregister n times, once more."""
    rng = ctx.rng("K", n, hi, disp, entry.name)
    objs, layers, rank = small_graph(rng)
    S = Session(ctx, "literal", objs, layers[0])
    S.set_base()
    for _ in range(n):
        S.add(0, hi, entry, disp)
        S.probe_all(rng)
    for _ in range(n):
        S.probe_all()
        S.remove(0, hi, entry, disp)
    S.probe_all()
    S.remove(0, hi, entry, disp)              # one further unregistration
    S.probe_all()
    ctx.count("literal_counted_cases")


def ui_state_case(ctx, start, mid, n, mix, hi, entry):
    """Register under UI-handler state `start` (dispatch 'ui', or 'same' and 'ui' of one handler and
    expression), switch to `mid`, unregister; counts are per (handler, graph, dispatch) whatever the
    process-wide UI handler is at either moment."""
    rng = ctx.rng("U", start, mid, n, mix, hi, entry.name)
    objs, layers, rank = small_graph(rng)
    S = Session(ctx, "ui-state", objs, layers[0], extra={"ui_at_registration": start, "ui_at_unregistration": mid})
    S.set_base()
    if start != "A":
        S.switch_ui(start)
    order = ["ui"] * n + (["same"] * n if mix == "both" else [])
    rng.shuffle(order)
    for d in order:
        S.add(0, hi, entry, d)
    S.probe_all(rng)
    if mid != start:
        S.switch_ui(mid)
    S.probe_all(rng)
    first = "ui" if (mix == "ui" or rng.random() < 0.5) else "same"
    for _ in range(n):
        S.remove(0, hi, entry, first)
    S.probe_all(rng)
    S.remove(0, hi, entry, first)              # count 0 for this dispatch: must raise, change nothing
    S.probe_all()
    if mix == "both":
        other = "same" if first == "ui" else "ui"
        if rng.random() < 0.5 and CH.ui_state != start:
            S.switch_ui(start)
        for _ in range(n):
            S.remove(0, hi, entry, other)
        S.probe_all()
        S.remove(0, hi, entry, other)
    S.probe_all(rng)
    ctx.count("ui_state_cases")


def canonical_failing(ctx, which):
    rng = ctx.rng("Kf", which)
    if which == "sibling":
        root = Node(sn=0)
        good, bad = Node(sn=1), Leaf(sn=2)
        for o in (root, good):
            o.children, o.cmap, o.cset, o.child, o.other_child, o.bag
            o.value = o.other = o.tagged = 0
        bad.other = 0
        root.children = [good, bad]
        S = Session(ctx, "canonical", [root, good, bad], [root])
        S.set_base()
        S.add(0, 0, Entry("a", [t("children", items(V, notify=False), notify=False)]), "same")
    else:
        objs, layers, rank = small_graph(rng)
        S = Session(ctx, "canonical", objs, layers[0])
        S.set_base()
        if which == "parallel-add":
            S.add(0, 0, Entry("b", [t("value"), t("nope")]), "same")
        else:
            S.add(0, 0, Entry("pre", [t("child", V)]), "same")
            S.remove(0, 0, Entry("c", [t("child", V), t("children", items(V))],
                                 text="[child,children.items].value"), "same")
    S.probe_all()
    S.unwind(rng)
    S.probe_all()


# ---------------------------------------------------------------------------
def guarded(ctx, fn, *a, gc_hard=False):
    """Run one history; Stop = its first violation (already recorded)."""
    old = gc.get_threshold()
    if gc_hard:
        gc.set_threshold(1, 1, 1)
        ctx.count("gc_threshold_cases")
    CH.set_ui("A")
    try:
        fn(ctx, *a)
    except Stop:
        pass
    finally:
        if gc_hard:
            gc.set_threshold(*old)
        CH.set_ui("A")
        del CH.queue[:]
        del CH.captured[:]


def run(ctx):
    CH.install()
    old_switch = sys.getswitchinterval()
    old_gc = gc.get_threshold()
    gc.collect()
    gc.freeze()          # the interpreter's own objects: keeps the many gc.collect() calls cheap
    try:
        # stratum "gcpoints": a collection before every statement of one operation
        from vf.monitors import _c09_gcpoints
        _c09_gcpoints.run(ctx)
        _run(ctx)
        # stratum "cycles": registrations that are part of a reference cycle (handler refers back)
        from vf.monitors import _c09_cycles
        _c09_cycles.run(ctx, CH, guarded)
        # stratum "nested": containers of containers, equal-but-new replacements
        from vf.monitors import _c09_nested
        _c09_nested.run(ctx, sys.modules[__name__])
    finally:
        WORKER.stop()
        gc.unfreeze()
        gc.set_threshold(*old_gc)
        sys.setswitchinterval(old_switch)
        CH.restore()


def _run(ctx):
    OK, BAD = catalogue()
    # ---- (0) literal instances of the statement ----------------------------------
    for which in ("sibling", "parallel-add", "parallel-remove"):
        if ctx.mine(0) and ctx.begin("K:%s" % which):
            try:
                guarded(ctx, canonical_failing, which)
            finally:
                ctx.end()
    lit = [e for e in OK if e.name in ("value", "child.value", "children.items.value", "child:value",
                                       "cmap.items.value", "[child,children.items].value", "*",
                                       "x:children.list.value", "value, value")]
    for k, (n, hi, disp) in enumerate(itertools.product((1, 2, 3, 4), range(3), ("same", "ui"))):
        if not ctx.mine(k):
            continue
        if not ctx.begin("K:%d:%d:%s" % (n, hi, disp)):
            continue
        try:
            for e in lit:
                guarded(ctx, literal_counted, n, hi, disp, e, gc_hard=(n == 3 and hi == 1))
            if n == 2 and hi == 1:
                ctx.sample({"stratum": "literal", "handler": HANDLER_KINDS[hi], "dispatch": disp,
                            "expression": "children.items.value",
                            "history": ["observe x2", "probe every leaf trait after each", "remove x2",
                                        "census == initial", "remove once more -> NotifierNotFound"]})
        finally:
            ctx.end()
    # ---- (0b) the process-wide UI handler as part of the history -------------------------
    uis = ("none", "A", "B")
    lit_ui = [e for e in lit if e.name in ("value", "child.value", "children.items.value",
                                           "[child,children.items].value", "value, value")]
    for k, (start, mid, mix) in enumerate(itertools.product(uis, uis, ("ui", "both"))):
        if not ctx.mine(k):
            continue
        if not ctx.begin("U:%s:%s:%s" % (start, mid, mix)):
            continue
        try:
            for n in (1, 2):
                for hi in range(3):
                    for e in lit_ui:
                        guarded(ctx, ui_state_case, start, mid, n, mix, hi, e)
            if start == "none" and mid == "A" and mix == "ui":
                ctx.sample({"stratum": "ui-state", "history": [
                    "set_ui_handler(None)", "observe(h, 'child.value', dispatch='ui') x2",
                    "probe from main and worker thread", "set_ui_handler(queueing handler)", "probe",
                    "observe(..., dispatch='ui', remove=True) x2", "census == initial",
                    "once more -> NotifierNotFound"]})
        finally:
            ctx.end()
    # ---- (1) random histories ------------------------------------------------
    nh = ctx.scale(1600, 60000)
    for h in range(nh):
        if not ctx.mine(h):
            continue
        if not ctx.begin("M:%d" % h):
            continue
        try:
            guarded(ctx, main_history, h, OK, BAD, gc_hard=(h % 12 == 5))
            ctx.count("histories")
        finally:
            ctx.end()
    # ---- (1b) duplicates: multi-item container events that change multiplicities ----
    nd = ctx.scale(640, 20000)
    for h in range(nd):
        if not ctx.mine(h):
            continue
        if not ctx.begin("D:%d" % h):
            continue
        try:
            guarded(ctx, main_history, h, OK, BAD, True, gc_hard=(h % 16 == 7))
            ctx.count("duplicate_histories")
        finally:
            ctx.end()
    # ---- (1c) run-time re-definition of traits between registration and unregistration ----
    entries_r = redef_entries()
    nr = ctx.scale(70, 2000)
    pats = sorted(REDEF_PATTERNS)
    for h in range(nr * len(pats)):
        if not ctx.mine(h):
            continue
        pattern = pats[h % len(pats)]
        if not ctx.begin("R:%s:%d" % (pattern, h)):
            continue
        try:
            guarded(ctx, redef_history, h, pattern, entries_r, gc_hard=(h % 20 == 9))
            ctx.count("redefinition_histories")
        finally:
            ctx.end()
    # ---- (2) failure positions ------------------------------------------------
    nvar = ctx.scale(3, 8)
    for ci, (D, F, li_) in enumerate(failpos_configs(ctx)):
        if not ctx.mine(ci):
            continue
        cid = "F:%d:%d:%d" % (D, F, li_)
        if not ctx.begin(cid, {"depth": D, "fanout": F}):
            continue
        try:
            lr = ctx.rng("Flinks", D, F, li_)
            links = [lr.choice(LINKS[:4] if F > 1 else LINKS) for _ in range(D)]
            if li_ == 0:
                links = ["children"] * D
            npos = len(tree_positions(D, F))
            for pos in [None] + list(range(npos)):
                for v in range(nvar if pos is not None else 1):
                    guarded(ctx, failpos_case, cid, D, F, links, pos, v, gc_hard=((pos or 0) + v) % 9 == 4)
                    ctx.count("failpos_cases")
                    if pos is not None and pos % F != 0:
                        ctx.count("failpos_sibling_cases")
            if li_ == 0 and D == 2 and F == 2:
                ctx.sample({"stratum": "failure position", "depth": D, "fanout": F, "links": links,
                            "positions": npos, "expression": "children.items.children.items.value"})
        finally:
            ctx.end()
    # ---- (3) multi-graph / branch enumeration -----------------------------------
    reps = ctx.scale(6, 60)
    gi = 0
    for rep in range(reps):
        for m in (2, 3, 4):
            gi += 1
            if not ctx.mine(gi):
                continue
            if not ctx.begin("G:%d:%d" % (rep, m)):
                continue
            try:
                for j in range(m):
                    for v in range(2):
                        guarded(ctx, multigraph_add_case, rep, m, j, v)
                masks = range(1 << m) if m <= 3 else sorted(ctx.rng("masks", rep).sample(range(16), 8))
                for mask in masks:
                    guarded(ctx, multigraph_remove_case, rep, m, mask, 0, gc_hard=(mask == 3))
                for nb in (2, 3):
                    for j in range(nb):
                        guarded(ctx, branch_case, rep, nb, j, m)
            finally:
                ctx.end()
    ctx.sample({"stratum": "multi-graph remove", "expression": "[child,children.items].value",
                "registered": ["child.value"], "expected": "NotifierNotFound and census unchanged"})
    # ---- (4) weakness -------------------------------------------------------------
    nw = ctx.scale(40, 800)
    for b in range(nw):
        if not ctx.mine(b):
            continue
        if not ctx.begin("W:%d" % b):
            continue
        try:
            for j in range(12):
                guarded(ctx, weak_case, b * 12 + j, gc_hard=(j % 4 == 3))
        finally:
            ctx.end()
    ctx.sample({"stratum": "weakness", "mode": "owner",
                "history": ["o.observe(owner.meth, 'child.value')", "del owner", "gc.collect()",
                            "o.child.value += 1", "o.child = None"]})
    # ---- (4b) stale owners + bursts of fresh targets ------------------------------------
    ns = ctx.scale(48, 1200)
    for b in range(ns):
        if not ctx.mine(b):
            continue
        if not ctx.begin("SO:%d" % b):
            continue
        try:
            for j in range(8):
                guarded(ctx, stale_owner_case, b * 8 + j, gc_hard=(j == 5))
        finally:
            ctx.end()
    # ---- (5) thread stress ---------------------------------------------------------
    nt = ctx.scale(4, 32)
    for i in range(nt):
        if not ctx.mine(i):
            continue
        if not ctx.begin("T:%d" % i):
            continue
        try:
            guarded(ctx, thread_stress, i)
        finally:
            ctx.end()
    ctx.note("schedules", "preemptive interleavings only as a 4-thread stress with a final-state oracle "
                          "(census + no exception); reach is limited")
