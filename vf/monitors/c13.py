"""C13 -- every attribute name is governed by the right trait and its policy.

Oracle: a resolution function written from the manual ("Wildcard Rules",
HasStrictTraits / HasPrivateTraits, per-object trait attributes): instance
trait -> class trait of that name (own or inherited) -> wildcard rule with the
longest matching prefix (rules of the whole hierarchy merged, a subclass
overriding its base) -> class default.  The governing trait *kind* predicts the
outcome class of every get / set / del (value / AttributeError / TraitError),
the accept pattern of a five-class value fingerprint and the value read back.

Hierarchies are data: a list of ("class", idx, parent, decl) and
("add_class", idx, name, kind) steps drawn from the case rng and realised with
the metaclass call ``type(Base)(name, (Base,), namespace)``.  The model never
looks at the class dictionaries, at ``__prefix_traits__`` or at the
resolved-name cache; it only knows the declared rules.

Stratum 'indirect' (plumbing in _c13_indirect.py): the same model judges a
name that is reached through another object's DelegatesTo / PrototypedFrom
trait (all prefix styles), trait_set / trait_get, sync_trait, constructor
keywords, observe / on_trait_change registrations and trait look-ups, mostly as
the first mention of the name on its class -- always for the name ON THE OBJECT
THAT STORES IT.

See DESIGN.md section 4 / C13.
"""
import copy as copy_module
import operator
import pickle
import sys

from traits.api import (
    HasTraits, HasStrictTraits, HasPrivateTraits, TraitError, Undefined,
    Int, Str, Bool, Float, Any, ReadOnly, Constant, Event, Disallow, Python,
)

from vf.util import same, short
from vf.monitors import _c13_indirect as IND

META = {
    "level": "exploration",
    "rule": ("case = one generated hierarchy (root in HasTraits/HasStrictTraits/HasPrivateTraits, 2-4 "
             "classes in chains and sibling forks, each declaring explicit traits and wildcard rules of "
             "prefix length 0-4 out of 10 trait kinds, class-level add_class_trait steps interleaved with "
             "class creation) plus a 40-step history of get / set / 5-class fingerprint / del / add_trait "
             "/ remove_trait / new-instance on 3-10 instances of all classes in random order, names drawn "
             "from exact, single-prefix, multi-prefix, private, unrelated and (unjudged) dunder names. "
             "Strata: 'main' (remove_trait only where an instance trait exists or nothing is stored), "
             "'noop' (remove_trait drawn freely: pattern of the fixed finding F17), 'late' (a wildcard "
             "rule added by a later subclass / add_class_trait after the name was already resolved), "
             "'listener' (classes with a static _trait_added_changed method and instances with a dynamic "
             "on_trait_change(..., 'trait_added') listener that re-entrantly add_trait()s an instance "
             "trait of a random kind for the announced name when it matches a random prefix rule, once "
             "per (instance, name); the access that triggered the announcement -- get / set / del / "
             "on_trait_change(handler, name) -- must already be governed by that instance trait). "
             "Kinds include ReadOnly traits already defined by their declaration (ReadOnly(value) as "
             "explicit trait, wildcard rule, add_class_trait or add_trait; a _name_default method; a "
             "subclass giving an inherited ReadOnly a class-body value or default method), which reject "
             "every assignment in set-before-read, constructor-keyword and read-then-set orders. Ops also "
             "include on_trait_change(handler, name) / on_trait_change(handler, name, remove=True) "
             "(often of the last handler) on class-governed names and on user-added instance traits, "
             "after which the same trait must still govern. "
             "'shared': one trait definition object (ready-made CTrait or TraitType instance) bound to "
             "several names of several classes, some with _name_default methods and static "
             "_name_changed handlers; every name is governed as if it had its own definition. "
             "'copy': pickle (protocols 2/4/5) / copy.copy / copy.deepcopy round trips of objects "
             "carrying instance traits; the copy is an ordinary object of its class (a refused restore "
             "is fine) on which nothing may be readable that the governing class-level trait rejects, "
             "and all further operations are judged on it. 'bookkeeping': remove_trait on names for "
             "which traits keeps an instance trait of its own (observed, reported only when enabled). "
             "'indirect': the name is reached WITHOUT a plain getattr/setattr on the object that stores "
             "it, mostly as the first mention of that name on any instance of the class (so wildcard / "
             "class-default names are still unresolved), and is judged by the same resolution model for "
             "the name on the storing object: reads and fingerprint writes through a DelegatesTo / "
             "Delegate(modify=True) trait of another object in all four prefix styles (same name, "
             "prefix='target', 'head*' + delegator name, '*' + the delegator class's __prefix__), "
             "listenable or not (read back directly); PrototypedFrom / Delegate(modify=False) in the "
             "same styles (accept pattern and write-once policy of the governing trait, accepted value "
             "kept on the delegator, prototype untouched); trait_set / trait_setq / "
             "trait_set(trait_change_notify=False) / trait_get(name) / trait_get([name]) / constructor "
             "keywords; other.sync_trait(v, obj, name) one-way and mutual (outcome of the linking call = "
             "outcome of the initial assignment; every forwarded change judged by a direct read); "
             "observe(handler, name) / observe(handler, trait(name, optional=True[, notify=False])) / "
             "on_trait_change(handler, name) and trait() / base_trait() / trait_names() / traits() "
             "look-ups before any direct access (unjudged themselves, fingerprint after them); "
             "validate_trait(name, value) (legal exactly when the governing value kind accepts). "
             "Violations found on an indirect route carry the key prefix via-<route>/. "
             "Value kinds may take their default from a _name_default method. "
             "distinct_nontrivial counts distinct (op, governing kind, resolution route, number and "
             "origin of matching prefixes, root, stored-state class, outcome class) signatures of judged "
             "operations."),
    "phases": [{"name": "main", "flavour": "P", "shards": 16}],
    "gates": {
        "quick": {"evaluations": 250000, "hierarchies": 2500, "multi_prefix_ops": 30000,
                  "cross_class_prefix_ops": 20000, "cross_instance_ops": 90000,
                  "instance_trait_ops": 40000, "restored_after_remove_ops": 10000,
                  "readonly_rejections": 7000, "readonly_defining_assignments": 2500,
                  "strict_undeclared_ops": 40000, "private_name_ops": 8000, "event_ops": 12000,
                  "constant_ops": 12000, "noop_removes_checked": 8000, "noop_removes_with_value": 100,
                  "instance_traits_removed": 1800, "reads_directly_after_remove": 900,
                  "late_checks": 500, "late_checks_after_resolution": 300,
                  "listener_hierarchies": 600, "listener_added_traits": 6000,
                  "listener_first_get": 1400, "listener_first_set": 2700, "listener_first_del": 1100,
                  "listener_first_hook": 900, "hook_ops": 2600, "dynamic_listeners": 800,
                  "readonly_declared_ops": 30000, "readonly_declared_set_before_read": 3000,
                  "readonly_declared_wildcard": 10000, "readonly_declared_instance": 15000,
                  "readonly_declared_method": 1400, "readonly_declared_classvalue": 1100,
                  "readonly_declared_defmethod": 1000, "constructor_kw_checks": 2800,
                  "constructor_kw_readonly_declared": 130, "unhook_ops": 5700,
                  "unhook_last_handler": 5600, "unhook_last_handler_on_instance_trait": 1400,
                  "shared_hierarchies": 400, "shared_definitions": 780, "shared_slots": 2500,
                  "shared_slots_with_default_method": 700, "shared_slots_with_changed_handler": 700,
                  "shared_ctrait_defs_mixing_default_method_and_plain": 290, "shared_slot_ops": 11000,
                  "shared_slot_ops_without_default_method": 7500, "copy_hierarchies": 400,
                  "copy_ops": 2500, "copy_ops_pickle": 1250, "copy_ops_copy": 400,
                  "copy_ops_deepcopy": 850, "copies_made": 2300, "copies_made_pickle": 1000,
                  "copy_source_with_instance_traits": 690,
                  "copy_source_value_refused_by_class_rule": 160, "copy_refused": 240,
                  "copied_names_judged": 5600, "bookkeeping_checks": 80, "bookkeeping_controls": 20,
                  "indirect_hierarchies": 800, "indirect_ops": 20000, "indirect_delegate_writes": 5000,
                  "indirect_delegate_reads": 2000, "indirect_delegate_renamed_ops": 6000,
                  "indirect_prototype_writes": 13000, "indirect_prototype_renamed_ops": 2300,
                  "indirect_first_access_ops": 18000, "indirect_first_access_wildcard": 10000,
                  "indirect_first_write_wildcard_or_default": 10000,
                  "indirect_first_write_renamed_unlistenable": 3000, "indirect_sync_links": 2000,
                  "indirect_sync_writes": 3000, "indirect_trait_set_ops": 2000,
                  "indirect_trait_get_ops": 1400, "indirect_register_ops": 2000, "indirect_peek_ops": 1600,
                  "indirect_validate_checks": 3800},
        "thorough": {"evaluations": 9000000, "hierarchies": 90000, "multi_prefix_ops": 1080000,
                  "cross_class_prefix_ops": 720000, "cross_instance_ops": 3240000,
                  "instance_trait_ops": 1440000, "restored_after_remove_ops": 360000,
                  "readonly_rejections": 252000, "readonly_defining_assignments": 90000,
                  "strict_undeclared_ops": 1440000, "private_name_ops": 288000, "event_ops": 432000,
                  "constant_ops": 432000, "noop_removes_checked": 288000,
                  "noop_removes_with_value": 3600, "instance_traits_removed": 64800,
                  "reads_directly_after_remove": 32400, "late_checks": 6000,
                  "late_checks_after_resolution": 3600,
                  "listener_hierarchies": 18000, "listener_added_traits": 180000,
                  "listener_first_get": 42000, "listener_first_set": 81000,
                  "listener_first_del": 33000, "listener_first_hook": 27000, "hook_ops": 78000,
                  "dynamic_listeners": 24000,
                  "readonly_declared_ops": 900000, "readonly_declared_set_before_read": 90000,
                  "readonly_declared_wildcard": 300000, "readonly_declared_instance": 450000,
                  "readonly_declared_method": 42000, "readonly_declared_classvalue": 33000,
                  "readonly_declared_defmethod": 30000, "constructor_kw_checks": 84000,
                  "constructor_kw_readonly_declared": 3900, "unhook_ops": 171000,
                  "unhook_last_handler": 168000, "unhook_last_handler_on_instance_trait": 42000,
                  "shared_hierarchies": 12000, "shared_definitions": 23400, "shared_slots": 75000,
                  "shared_slots_with_default_method": 21000,
                  "shared_slots_with_changed_handler": 21000,
                  "shared_ctrait_defs_mixing_default_method_and_plain": 8700,
                  "shared_slot_ops": 330000, "shared_slot_ops_without_default_method": 225000,
                  "copy_hierarchies": 12000, "copy_ops": 75000, "copy_ops_pickle": 37500,
                  "copy_ops_copy": 12000, "copy_ops_deepcopy": 25500, "copies_made": 69000,
                  "copies_made_pickle": 30000, "copy_source_with_instance_traits": 20700,
                  "copy_source_value_refused_by_class_rule": 4800, "copy_refused": 7200,
                  "copied_names_judged": 168000, "bookkeeping_checks": 960,
                  "bookkeeping_controls": 240,
                  "indirect_hierarchies": 25000, "indirect_ops": 625000, "indirect_delegate_writes": 156250,
                  "indirect_delegate_reads": 62500, "indirect_delegate_renamed_ops": 187500,
                  "indirect_prototype_writes": 406250, "indirect_prototype_renamed_ops": 71875,
                  "indirect_first_access_ops": 562500, "indirect_first_access_wildcard": 312500,
                  "indirect_first_write_wildcard_or_default": 312500,
                  "indirect_first_write_renamed_unlistenable": 93750, "indirect_sync_links": 62500,
                  "indirect_sync_writes": 93750, "indirect_trait_set_ops": 62500,
                  "indirect_trait_get_ops": 43750, "indirect_register_ops": 62500,
                  "indirect_peek_ops": 50000, "indirect_validate_checks": 118750},
    },
    "assumptions": [
        "the manual's wildcard rules, HasStrictTraits/HasPrivateTraits definitions and the trait "
        "type table (defaults, accepted value classes of Int/Str/Bool/Float/Any) are the specification",
        "__dunder__ names are exercised but not judged (DESIGN C13 note N)",
        "after add_trait changes the governing trait of a name, the value left in the object from the "
        "previous regime is unspecified (add_trait keeps it): the harness reads it once and adopts it; "
        "after a successful remove_trait the name must behave as a never-assigned name of the "
        "class-level rule",
        "HasTraits itself declares the wildcard rule '_traits_cache__' (Any); it is part of the model's "
        "root rules",
        "when traits announces a name through trait_added is not modelled: the model only observes "
        "which instance traits the harness's own listeners added (and keeps them out of the harness's "
        "own add_trait calls, where the order of the two additions is unspecified)",
        "on_trait_change(handler, name) is not judged itself; names registered that way (and names with "
        "a static _name_changed handler) are not given to remove_trait in the histories unless the model "
        "holds an instance trait for them; that pattern lives in the 'bookkeeping' stratum",
        "objects made by pickle / copy / deepcopy carry no instance traits (none was added to them); "
        "which values they carry is not judged, only that each readable value is one the governing "
        "class-level trait accepts (its default, its constant, Undefined, or an acceptable value)",
    ],
}

# --------------------------------------------------------------------------
# kinds
# --------------------------------------------------------------------------

VALUE_KINDS = ("Int", "Str", "Bool", "Float", "Any")
# "ReadOnlyD": a ReadOnly already defined by its declaration -- ReadOnly(value),
# a `_name_default` method, or a subclass giving an inherited ReadOnly a
# class-body value.  The declaration is its one defining assignment: every
# assignment is rejected, whether or not the attribute was read before.
# kind = ("ReadOnlyD", value, flavour), flavour in arg / method / classvalue /
# defmethod (the last two only in a subclass of the class declaring the trait).
ALL_KINDS = VALUE_KINDS + ("ReadOnly", "ReadOnlyD", "Constant", "Event", "Disallow", "Python")
DEFAULTS = {"Int": 0, "Str": "", "Bool": False, "Float": 0.0, "Any": None}
CONSTANT_VALUES = (5, "k", 2.5)
READONLY_DEFAULTS = (5, "dflt", 2.5, None)
# value kinds may get their default from a `_name_default` method:
# kind = (k, value, "method")
METHOD_DEFAULTS = {"Int": (7, 42), "Str": ("dm", "x"), "Bool": (True,), "Float": (1.5,),
                   "Any": ("anyd", 3), "ReadOnly": (5, "dflt", 2.5)}


def default_of(kind):
    if len(kind) > 2 and kind[2] == "method":
        return kind[1]
    return DEFAULTS[kind[0]]
FIXED_KINDS = ("ReadOnlyD", "Constant")      # read the declared value, reject every write


def mk_trait(kind):
    """kind = (name, arg) -> object to put into a class namespace / add_trait."""
    k = kind[0]
    if k == "Int":
        return Int
    if k == "Str":
        return Str
    if k == "Bool":
        return Bool
    if k == "Float":
        return Float
    if k == "Any":
        return Any
    if k == "ReadOnly":
        return ReadOnly
    if k == "ReadOnlyD":
        return ReadOnly(kind[1]) if kind[2] == "arg" else ReadOnly
    if k == "Constant":
        return Constant(kind[1])
    if k == "Event":
        return Event
    if k == "Disallow":
        return Disallow
    if k == "Python":
        return Python
    raise AssertionError(kind)


def accepts(k, v):
    """Reference predicate of the five storing kinds: (accepted, stored value)."""
    if k == "Int":
        # "an int or an object with __index__"; bool is an int subclass
        if type(v) in (int, bool):
            return True, int(operator.index(v))
        return False, None
    if k == "Str":
        return (True, v) if type(v) is str else (False, None)
    if k == "Bool":
        return (True, v) if type(v) is bool else (False, None)
    if k == "Float":
        if type(v) is float:
            return True, v
        if type(v) in (int, bool):
            return True, float(v)
        return False, None
    if k in ("Any", "Python"):
        return True, v
    raise AssertionError(k)


ROOTS = {"HasTraits": HasTraits, "HasStrictTraits": HasStrictTraits,
         "HasPrivateTraits": HasPrivateTraits}
# wildcard rules of the three predefined roots (manual: "_ = Python",
# "_ = Disallow", "__ = Any; _ = Disallow"), plus HasTraits' own
# '_traits_cache__' rule.
ROOT_PREFIX = {
    "HasTraits": {"": ("Python", None), "_traits_cache_": ("Any", None)},
    "HasStrictTraits": {"": ("Disallow", None), "_traits_cache_": ("Any", None)},
    "HasPrivateTraits": {"": ("Disallow", None), "_": ("Any", None),
                         "_traits_cache_": ("Any", None)},
}

PREFIXES = ("a", "ab", "abc", "abcd", "b", "x", "_", "_p", "")
EXPLICIT = ("abc", "abcd", "abq", "a1", "bq", "zz", "ro", "k", "ev", "_p", "_pq", "x9")
POOL = ("a", "a1", "ab", "abq", "abc", "abcd", "abcde", "abc_d", "b", "bq", "zz", "_p", "_pq",
        "_", "_q", "x9", "xx", "ro", "k", "ev", "q", "a_", "_traits_cache_z")
DUNDER = ("__d__", "__ab__")


class Stop(Exception):
    """History ends at its first violation."""


# --------------------------------------------------------------------------
# model of the declared rules
# --------------------------------------------------------------------------

class ClsModel:
    __slots__ = ("idx", "parent", "explicit", "prefix", "children")

    def __init__(self, idx, parent, explicit, prefix):
        self.idx = idx
        self.parent = parent
        self.explicit = explicit      # name -> (kind, origin class idx)
        self.prefix = prefix          # prefix -> (kind, origin class idx); origin -1 = root
        self.children = []


def model_new_class(models, root, idx, parent, decl):
    if parent is None:
        explicit = {}
        prefix = {p: (k, -1) for p, k in ROOT_PREFIX[root].items()}
    else:
        explicit = dict(models[parent].explicit)
        prefix = dict(models[parent].prefix)
        models[parent].children.append(idx)
    for name, kind in decl:
        if name.endswith("_"):
            prefix[name[:-1]] = (kind, idx)
        else:
            explicit[name] = (kind, idx)
    m = ClsModel(idx, parent, explicit, prefix)
    models.append(m)
    return m


def descendants(models, idx):
    out = []
    todo = list(models[idx].children)
    while todo:
        c = todo.pop()
        out.append(c)
        todo.extend(models[c].children)
    return out


def model_add_class(models, idx, name, kind):
    """add_class_trait: the class itself (generator guarantees the name is new
    there) and every subclass that does not define the name already."""
    for c in [idx] + descendants(models, idx):
        m = models[c]
        if name.endswith("_"):
            m.prefix.setdefault(name[:-1], (kind, idx))
        else:
            m.explicit.setdefault(name, (kind, idx))


def resolve(m, itraits, name):
    """-> (kind, route) ; route is a structural tuple used in signatures."""
    under = _resolve_class(m, name)
    if name in itraits:
        return itraits[name], ("instance", under[1][0])
    return under


def _resolve_class(m, name):
    if name in m.explicit:
        kind, org = m.explicit[name]
        return kind, ("explicit", "own" if org == m.idx else "inherited")
    best = None
    nuser = 0
    origins = set()
    for p, (kind, org) in m.prefix.items():
        if name.startswith(p):
            if org >= 0:
                nuser += 1
                origins.add(org)
            if best is None or len(p) > len(best[0]):
                best = (p, kind, org)
    p, kind, org = best
    if org < 0:
        how = "default"
    else:
        how = "prefix-own" if org == m.idx else "prefix-inherited"
    return kind, (how, min(len(p), 3), min(nuser, 3), min(len(origins), 2),
                  "exact" if name == p else "longer")


# --------------------------------------------------------------------------
# generation (pure data)
# --------------------------------------------------------------------------

def gen_kind(rng, wildcard, class_body=False):
    if wildcard:
        k = rng.choice(("Int", "Str", "Bool", "Float", "Any", "Disallow", "Python",
                        "Int", "Str", "Bool", "Float", "ReadOnly", "Event", "Constant", "ReadOnlyD"))
    else:
        k = rng.choice(("Int", "Str", "Bool", "Float", "Any", "ReadOnly", "ReadOnly", "Constant",
                        "Event", "Disallow", "Python", "ReadOnlyD", "ReadOnlyD"))
    if k == "ReadOnlyD":
        flavour = rng.choice(("arg", "method")) if class_body and not wildcard else "arg"
        return (k, rng.choice(READONLY_DEFAULTS), flavour)
    if class_body and not wildcard and k in VALUE_KINDS and rng.random() < 0.2:
        return (k, rng.choice(METHOD_DEFAULTS[k]), "method")
    return (k, rng.choice(CONSTANT_VALUES) if k == "Constant" else None)


def gen_decl(rng, parent=None):
    decl = {}
    for _ in range(rng.randint(1, 5)):
        if rng.random() < 0.55:
            decl[rng.choice(PREFIXES) + "_"] = gen_kind(rng, True)
        else:
            decl[rng.choice(EXPLICIT)] = gen_kind(rng, False, class_body=True)
    if parent is not None:
        # a subclass defining an inherited ReadOnly: class-body value or default method
        for name in sorted(parent.explicit):
            if name not in decl and parent.explicit[name][0][0] in ("ReadOnly", "ReadOnlyD") \
                    and rng.random() < 0.5:
                decl[name] = ("ReadOnlyD", rng.choice((5, "fixed", 2.5)),
                              rng.choice(("classvalue", "defmethod")))
    return sorted(decl.items())


def gen_setup(rng):
    """-> (root, steps, models).  steps are replayable literal data."""
    root = rng.choice(("HasTraits", "HasStrictTraits", "HasPrivateTraits"))
    ncls = rng.randint(2, 4)
    steps = []
    models = []
    for i in range(ncls):
        if i == 0:
            parent = None
        elif rng.random() < 0.6:
            parent = i - 1
        else:
            parent = rng.randrange(i)
        decl = gen_decl(rng, None if parent is None else models[parent])
        steps.append(("class", i, parent, decl))
        model_new_class(models, root, i, parent, decl)
        if rng.random() < 0.4:
            target = rng.randrange(i + 1)
            if rng.random() < 0.65:
                name = rng.choice(PREFIXES) + "_"
                kind = gen_kind(rng, True)
                defined = name[:-1] in models[target].prefix
            else:
                name = rng.choice(EXPLICIT)
                kind = gen_kind(rng, False)
                defined = name in models[target].explicit
            if not defined:
                steps.append(("add_class", target, name, kind))
                model_add_class(models, target, name, kind)
    return root, steps, models


class ListenerHub:
    """Harness side of the `trait_added` listeners of the 'listener' stratum.

    A listener re-entrantly calls ``obj.add_trait(name, kind)`` for the name
    whose addition is being announced, once per (instance, name), when the
    name matches its rule -- and tells the model what it did.  The model does
    not predict *when* traits announces a name; it only observes which
    instance traits the listener added, and demands that they govern every
    access from then on, the access that triggered the announcement included.
    """

    def __init__(self):
        self.H = None

    def announce(self, obj, name, how, prefix, kind):
        H = self.H
        if H is None or type(name) is not str:
            return
        inst = H.by_id.get(id(obj))
        if inst is None or inst.obj is not obj:
            return
        H.ctx.count("trait_added_announcements")
        if (not name.startswith(prefix) or name in DUNDER or name.endswith("_")
                or name in ("trait_added", "trait_modified")):
            return
        if H.explicit_add == (inst.serial, name) or name in inst.listener_done:
            return
        inst.listener_done.add(name)
        try:
            obj.add_trait(name, mk_trait(kind))
        except BaseException as e:  # noqa: BLE001 - traits would swallow it
            H.hook_errors.append((inst.serial, name, kind, type(e).__name__))
            return
        inst.itraits[name] = kind
        st = inst.state(name)
        if st[0] != "no":
            st[0], st[1] = "unknown", None
        H.listener_log.append((inst.serial, name))
        H.log.append(("listener-add_trait", how, inst.serial, name, kind))
        H.ctx.count("listener_added_traits")

    def static(self, prefix, kind):
        hub = self

        def _trait_added_changed(self, new):
            hub.announce(self, new, "static", prefix, kind)
        return _trait_added_changed

    def dynamic(self, prefix, kind):
        hub = self

        def on_trait_added(obj, name, new):
            hub.announce(obj, new, "dynamic", prefix, kind)
        return on_trait_added


def gen_listeners(rng, ncls):
    """Listener specs of one 'listener' history (literal data)."""
    def rule():
        return (rng.choice(("", "", "a", "a", "ab", "b", "x", "_", "_p", "abc")), gen_kind(rng, False))
    static = {}
    for ci in range(ncls):
        if ci == 0 or rng.random() < 0.45:
            static[ci] = rule()
    return {"static": static, "dynamic_p": rng.choice((0.0, 0.3, 0.6)),
            "dynamic_rules": [rule() for _ in range(3)]}


def _mangled(class_name, attr):
    """The name a class *statement* would give to attribute `attr` (Python's
    private-name mangling; type() does not apply it by itself)."""
    if attr.startswith("__") and not attr.endswith("__"):
        return "_%s%s" % (class_name.lstrip("_"), attr)
    return attr


def _default_method(value):
    def _default(self):
        return value
    return _default


def gen_setup_shared(rng):
    """'shared' stratum: ONE trait definition object (a ready-made CTrait, or a
    TraitType instance) is bound to several names of several classes; some of
    these names have a `_name_default` method and/or a static `_name_changed`
    handler.  Every name must be governed as if it had a definition of its own.
    -> (root, steps, models, sharing); all literal data."""
    root = rng.choice(("HasTraits", "HasStrictTraits", "HasPrivateTraits"))
    ncls = rng.randint(2, 4)
    parents, decls = [], []
    for i in range(ncls):
        parents.append(None if i == 0 else (i - 1 if rng.random() < 0.6 else rng.randrange(i)))
        decls.append(dict(gen_decl(rng)))
    sharing = {"defs": [], "slots": [], "changed": []}
    taken = set()
    for sid in range(rng.randint(1, 3)):
        base = rng.choice(("ReadOnly", "ReadOnly", "ReadOnly", "Int", "Str", "Float", "Bool", "Any",
                           "Event", "Constant"))
        arg = rng.choice(CONSTANT_VALUES) if base == "Constant" else None
        sharing["defs"].append((base, arg, rng.choice(("ctrait", "ctrait", "instance"))))
        for _ in range(rng.randint(2, 5)):
            ci = rng.randrange(ncls)
            wildcard = rng.random() < 0.2
            name = rng.choice(PREFIXES) + "_" if wildcard else rng.choice(EXPLICIT)
            if (ci, name) in taken:
                continue
            taken.add((ci, name))
            if not wildcard and base in METHOD_DEFAULTS and rng.random() < 0.45:
                v = rng.choice(METHOD_DEFAULTS[base])
                kind = ("ReadOnlyD", v, "method") if base == "ReadOnly" else (base, v, "method")
            else:
                kind = (base, arg)
            decls[ci][name] = kind
            sharing["slots"].append((sid, ci, name))
            if not wildcard and rng.random() < 0.35:
                sharing["changed"].append((ci, name))
    steps, models = [], []
    for i in range(ncls):
        decl = sorted(decls[i].items())
        steps.append(("class", i, parents[i], decl))
        model_new_class(models, root, i, parents[i], decl)
    return root, steps, models, sharing


def _shared_object(base, arg, form):
    t = mk_trait((base, arg))
    if base == "ReadOnly":
        # the module-level ReadOnly is itself one TraitType instance shared by
        # everybody; calling it gives a ready-made CTrait
        return t if form == "instance" else t(desc="shared definition")
    inst = t() if isinstance(t, type) else t
    return inst if form == "instance" else inst.as_ctrait()


def _noop_changed(self, new):
    pass


def build(root, steps, tag, hub=None, listeners=None, sharing=None, register=False):
    """Realise the steps with the metaclass; returns the list of classes."""
    classes = []
    shared_at = {}
    if sharing is not None:
        objs = [_shared_object(*d) for d in sharing["defs"]]
        for sid, ci, name in sharing["slots"]:
            shared_at[(ci, name)] = objs[sid]
    for st in steps:
        if st[0] == "class":
            _, idx, parent, decl = st
            base = ROOTS[root] if parent is None else classes[parent]
            ns = {"__module__": __name__}
            cname = "K%s_%d" % (tag, idx)
            for name, kind in decl:
                flavour = kind[2] if len(kind) > 2 else None
                if flavour == "classvalue":
                    ns[name] = kind[1]
                elif flavour == "defmethod":
                    ns[_mangled(cname, "_%s_default" % name)] = _default_method(kind[1])
                else:
                    ns[name] = shared_at[(idx, name)] if (idx, name) in shared_at else mk_trait(kind)
                    if flavour == "method":
                        ns[_mangled(cname, "_%s_default" % name)] = _default_method(kind[1])
            if sharing is not None:
                for ci, name in sharing["changed"]:
                    if ci == idx:
                        ns[_mangled(cname, "_%s_changed" % name)] = _noop_changed
            if listeners is not None and idx in listeners["static"]:
                ns["_trait_added_changed"] = hub.static(*listeners["static"][idx])
            classes.append(type(base)(cname, (base,), ns))
            if register:        # pickle finds classes by module attribute
                setattr(sys.modules[__name__], cname, classes[-1])
        else:
            _, idx, name, kind = st
            classes[idx].add_class_trait(name, mk_trait(kind))
    return classes


def name_pool(models):
    names = set(POOL)
    for m in models:
        for n in m.explicit:
            names.add(n)
        for p, (_, org) in m.prefix.items():
            if org >= 0:
                names.add(p + "q")
                names.add(p + "_z")
                if p:
                    names.add(p)
    names.discard("")
    return sorted(names)


# --------------------------------------------------------------------------
# history interpreter
# --------------------------------------------------------------------------

class Inst:
    __slots__ = ("serial", "cls", "obj", "itraits", "st", "touched", "removed", "hooked",
                 "listener_done", "dyn", "handlers", "default_has", "origin", "read_all", "keep")

    def __init__(self, serial, cls, obj):
        self.serial = serial
        self.cls = cls              # class index
        self.obj = obj
        self.itraits = {}
        self.st = {}                # name -> [has, val]; has in no/yes/maybe/stale/unknown
        self.touched = set()
        self.removed = set()        # names whose instance trait was removed
        self.hooked = set()         # names given to on_trait_change (traits keeps an instance
                                    # trait of its own for them)
        self.listener_done = set()  # names the trait_added listener already handled
        self.dyn = None             # dynamic trait_added listener (kept alive)
        self.handlers = {}          # name -> handlers registered with on_trait_change
        self.default_has = "no"     # 'copied' for objects made by pickle / copy / deepcopy
        self.origin = None          # how a copy was made
        self.read_all = False       # a copy operation read every trait (defaults materialised)
        self.keep = []              # views / sync sources of the 'indirect' stratum (kept alive)

    def state(self, name):
        s = self.st.get(name)
        if s is None:
            s = self.st[name] = [self.default_has, None]
        return s


def attempt(fn, *args):
    try:
        return ("ok", fn(*args))
    except TraitError:
        return ("TE", None)
    except AttributeError:
        return ("AE", None)
    except Exception as e:  # noqa: BLE001 - outcome classification
        return ("EXC-" + type(e).__name__, None)


def value_for(rng, cls):
    if cls == "int":
        return rng.randint(1, 99)
    if cls == "str":
        return rng.choice("abcdefgh") * rng.randint(1, 2)
    if cls == "bool":
        return rng.random() < 0.5
    if cls == "float":
        return rng.randint(1, 99) + 0.5
    return None


VCLASSES = ("int", "str", "bool", "float", "none")


class History:
    def __init__(self, ctx, case, root, steps, models, classes, stratum):
        self.ctx = ctx
        self.case = case
        self.root = root
        self.steps = steps
        self.models = models
        self.classes = classes
        self.stratum = stratum
        self.insts = []
        self.log = []               # literal ops executed so far
        self.seen = {}              # name -> set of (class idx, serial) that touched it
        self.by_id = {}             # id(obj) -> Inst (objects are kept alive by self.insts)
        self.listeners = None       # listener specs ('listener' stratum)
        self.sharing = None         # shared-definition plan ('shared' stratum)
        self.static_handled = {}    # class idx -> names with a static _name_changed handler
        self.listener_log = []      # (serial, name) of instance traits added by listeners
        self.hook_errors = []
        self.explicit_add = None    # (serial, name) while the harness itself calls add_trait
        self.key_override = None    # mechanism key for the operation in progress
        self.via = None             # indirect route of the operation in progress ('indirect' stratum)
        self.class_seen = set()     # (class idx, name) mentioned in any way on an instance of the class
        self.nviews = 0

    # -- bookkeeping ---------------------------------------------------------
    def new_instance(self, ci):
        inst = Inst(len(self.insts), ci, self.classes[ci]())
        self.insts.append(inst)
        self.by_id[id(inst.obj)] = inst
        return inst

    def access(self, inst, name, fn, *args):
        """Run one attribute access; tell whether a trait_added listener added
        an instance trait for this very (instance, name) while it ran."""
        n0 = len(self.listener_log)
        out = attempt(fn, inst.obj, name, *args)
        fired = (inst.serial, name) in self.listener_log[n0:]
        if self.hook_errors:
            self.fail("listener/add_trait-raised-%s" % self.hook_errors[0][3],
                      "add_trait called from a trait_added listener raised: %r" % (self.hook_errors[0],))
        return out, fired

    def first_access(self, op, inst, name):
        kind, route = self.governing(inst, name)
        self.ctx.sig("listener-first", op, kind[0], route[1], self.root)
        self.ctx.count("listener_first_%s" % op)
        self.ctx.count("listener_first_access_ops")
        self.key_override = "listener-added-trait/first-%s/not-governed-by-instance-trait" % op

    def fail(self, key, msg, **extra):
        key = self.key_override or key
        if self.via is not None:
            key = "via-%s/%s" % (self.via, key)
            msg = "[reached via %s] %s" % (self.via, msg)
        if self.sharing is not None and extra.get("cls") is not None and extra.get("name"):
            e = self.models[extra["cls"]].explicit.get(extra["name"])
            if e is not None and any(ci == e[1] and n == extra["name"] for _, ci, n in self.sharing["slots"]):
                key = "shared-definition/" + key
        w = {"root": self.root, "setup": self.steps, "stratum": self.stratum,
             "instances": [i.cls for i in self.insts], "history": self.log[-60:]}
        if self.listeners is not None:
            w["listeners"] = self.listeners
            msg += " | listeners=%r" % (self.listeners,)
        if self.sharing is not None:
            w["sharing"] = self.sharing
            msg += " | sharing=%r" % (self.sharing,)
        w.update(extra)
        self.ctx.violation(key, msg + " | root=%s setup=%r history(tail)=%r"
                           % (self.root, self.steps, self.log[-8:]), w)
        raise Stop()

    def observe(self, op, inst, name, kind, route, has, outcome):
        """Counters + signature of one judged operation."""
        ctx = self.ctx
        ctx.ev()
        k = kind[0]
        how = route[0]
        if how.startswith("prefix"):
            sroute = (how, route[2], route[3])
        elif how == "default":
            sroute = (how, self.root, route[1])
        else:
            sroute = route
        ctx.sig(op.split(":")[0], k, sroute, has, outcome)
        if how == "instance":
            ctx.count("instance_trait_ops")
        elif how.startswith("prefix"):
            if route[2] >= 2:
                ctx.count("multi_prefix_ops")
            if route[3] >= 2:
                ctx.count("cross_class_prefix_ops")
        elif how == "default":
            if self.root != "HasTraits" and k == "Disallow":
                ctx.count("strict_undeclared_ops")
            if self.root == "HasPrivateTraits" and name.startswith("_") and k == "Any":
                ctx.count("private_name_ops")
        if how != "instance" and name in inst.removed:
            ctx.count("restored_after_remove_ops")
        if self.sharing is not None and how.startswith("explicit"):
            org = self.models[inst.cls].explicit[name][1]
            if any(ci == org and n == name for _, ci, n in self.sharing["slots"]):
                ctx.count("shared_slot_ops")
                if len(kind) <= 2:
                    ctx.count("shared_slot_ops_without_default_method")
        if k == "Event":
            ctx.count("event_ops")
        elif k == "Constant":
            ctx.count("constant_ops")
        elif k == "ReadOnlyD":
            ctx.count("readonly_declared_ops")
            ctx.count("readonly_declared_%s" % kind[2])
            if how.startswith("prefix"):
                ctx.count("readonly_declared_wildcard")
            elif how == "instance":
                ctx.count("readonly_declared_instance")
        users = self.seen.setdefault(name, set())
        if any(s != inst.serial for (_, s) in users):
            ctx.count("cross_instance_ops")
        if any(c != inst.cls for (c, _) in users):
            ctx.count("cross_class_ops")
        users.add((inst.cls, inst.serial))

    def governing(self, inst, name):
        return resolve(self.models[inst.cls], inst.itraits, name)

    # -- unknown state: one harness read adopts whatever the object holds ------
    def settle(self, inst, name, kind):
        s = inst.state(name)
        if s[0] == "copied":
            return self.settle_copied(inst, name, kind, s)
        if s[0] != "unknown":
            return s
        k = kind[0]
        out = attempt(getattr, inst.obj, name)
        self.log.append(("settle-read", inst.serial, name, out[0]))
        self.class_seen.add((inst.cls, name))
        self.ctx.count("adopting_reads")
        if out[0] == "ok":
            if k == "ReadOnly":
                s[0] = "no" if out[1] is Undefined else "maybe"
            elif k in ("Event", "Disallow"):
                s[0] = "stale"
            else:
                s[0] = "yes"
            s[1] = out[1]
        elif out[0] == "AE":
            if k in VALUE_KINDS or k in ("ReadOnly", "ReadOnlyD", "Constant"):
                self.fail("get/%s/unreadable" % k,
                          "%s-governed name %r raised AttributeError on read" % (k, name),
                          name=name, kind=kind)
            s[0], s[1] = "no", None
        else:
            self.fail("get/%s/unexpected-%s" % (k, out[0]),
                      "read of %r raised %s" % (name, out[0]), name=name, kind=kind)
        return s

    def settle_copied(self, inst, name, kind, s):
        """First look at a name of an object made by pickle / copy / deepcopy.
        Which values a copy carries is not this property's business, but the
        copy is an ordinary object of its class to which no instance trait was
        added: whatever can be read must be a value the governing class-level
        trait accepts (or its default / constant / nothing at all)."""
        k = kind[0]
        out = attempt(getattr, inst.obj, name)
        self.log.append(("copied-read", inst.serial, name, out[0], short(out[1], 30)))
        self.ctx.ev()
        self.ctx.count("copied_names_judged")
        self.ctx.sig("copied", inst.origin, k, out[0])
        saved = self.key_override
        self.key_override = self.key_override or \
            "copy-%s/readable-value-against-class-level-rule" % inst.origin
        if out[0].startswith("EXC-"):
            self.fail("get/%s/unexpected-%s" % (k, out[0]), "read of %r raised %s" % (name, out[0]),
                      name=name, kind=kind)
        if k in ("Event", "Disallow"):
            if out[0] != "AE":
                self.fail("get/%s/readable" % k,
                          "%r on a %s copy is governed by %s but reads %r" % (name, inst.origin, kind, out[1]),
                          name=name, kind=kind, got=out)
            s[0], s[1] = "no", None
        elif k == "Python":
            s[0], s[1] = ("yes", out[1]) if out[0] == "ok" else ("no", None)
        else:
            if out[0] != "ok":
                self.fail("get/%s/unreadable" % k,
                          "%s-governed name %r raised AttributeError on a %s copy" % (k, name, inst.origin),
                          name=name, kind=kind)
            v = out[1]
            if k == "ReadOnly":
                s[0], s[1] = ("no", None) if v is Undefined else ("maybe", v)
            elif k in FIXED_KINDS:
                if not (v is kind[1] or same(v, kind[1])):
                    self.fail("get/%s/wrong-value" % k,
                              "%r on a %s copy is governed by %s but reads %r" % (name, inst.origin, kind, v),
                              name=name, kind=kind, got=out)
                s[0], s[1] = "no", None
            else:
                dv = default_of(kind)
                ok, stored = accepts(k, v)
                # Undefined is traits' own "no value yet" marker, which every
                # trait stores unvalidated (a copied ReadOnly-governed value)
                if v is not Undefined and not (v is dv or same(v, dv)) \
                        and not (ok and (stored is v or same(stored, v))):
                    self.fail("get/%s/holds-unacceptable-value" % k,
                              "%r on a %s copy is governed by %s but reads %r, which that trait rejects"
                              % (name, inst.origin, kind, v), name=name, kind=kind, got=out)
                s[0], s[1] = "yes", v
        self.key_override = saved
        return s

    # -- operations ------------------------------------------------------------
    def do_get(self, inst, name, tag="get", key=None, fn=getattr):
        """Judged read.  `key`: report any disagreement under this mechanism
        key (used for the read that directly follows a remove_trait).  `fn`:
        the accessor (an indirect route to the same name of the same object)."""
        if name in DUNDER:
            attempt(getattr, inst.obj, name)
            self.ctx.count("dunder_ops_unjudged")
            return
        kind, route = self.governing(inst, name)
        s = self.settle(inst, name, kind)
        inst.touched.add(name)
        self.class_seen.add((inst.cls, name))
        out, fired = self.access(inst, name, fn)
        self.log.append((tag, inst.serial, name, out[0], short(out[1], 30)))
        if fired:
            self.first_access("get", inst, name)
            kind, route = self.governing(inst, name)
            s = inst.state(name)
            if s[0] == "unknown":
                return
        k = kind[0]
        has = s[0]
        if has == "stale":
            self.ctx.count("unjudged_stale_reads")
            if out[0].startswith("EXC-"):
                self.fail("get/%s/unexpected-%s" % (k, out[0]), "read of %r raised %s" % (name, out[0]),
                          name=name, kind=kind)
            return
        if has in ("yes", "maybe"):
            exp = ("ok", s[1])
        elif k in DEFAULTS:
            exp = ("ok", default_of(kind))
        elif k == "ReadOnly":
            exp = ("ok", Undefined)
        elif k in FIXED_KINDS:
            exp = ("ok", kind[1])
        else:
            exp = ("AE", None)          # Event, Disallow, unset Python attribute
        self.observe("get", inst, name, kind, route, has, out[0])
        if out[0] != exp[0]:
            if out[0].startswith("EXC-"):
                c = "unexpected-" + out[0]
            elif exp[0] == "AE":
                c = "readable" if out[0] == "ok" else "wrong-exception-" + out[0]
            else:
                c = "unreadable-" + out[0]
            self.fail(key or "get/%s/%s" % (k, c),
                      "read of %r (governed by %s via %s, stored=%s) gave %s, expected %s"
                      % (name, kind, route, has, out[0], exp[0]),
                      name=name, kind=kind, route=route, cls=inst.cls, expected=exp, got=out)
        if exp[0] == "ok" and not (out[1] is exp[1] or same(out[1], exp[1])):
            c = "wrong-default" if has == "no" else "wrong-value"
            self.fail(key or "get/%s/%s" % (k, c),
                      "read of %r (governed by %s via %s, stored=%s) gave %r, expected %r"
                      % (name, kind, route, has, out[1], exp[1]),
                      name=name, kind=kind, route=route, cls=inst.cls, expected=exp, got=out)

    def do_set(self, inst, name, v, readback, fn=setattr):
        if name in DUNDER:
            attempt(setattr, inst.obj, name, v)
            self.ctx.count("dunder_ops_unjudged")
            return
        kind, route = self.governing(inst, name)
        s = self.settle(inst, name, kind)
        first_mention = name not in inst.touched
        inst.touched.add(name)
        self.class_seen.add((inst.cls, name))
        out, fired = self.access(inst, name, fn, v)
        self.log.append(("set", inst.serial, name, v, out[0]))
        if fired:
            self.first_access("set", inst, name)
            kind, route = self.governing(inst, name)
            s = inst.state(name)
            if s[0] == "unknown":
                return
        k = kind[0]
        has = s[0]
        vclass = type(v).__name__
        if out[0].startswith("EXC-"):
            self.fail("set/%s/unexpected-%s" % (k, out[0]),
                      "assignment %r = %r raised %s" % (name, v, out[0]), name=name, kind=kind)
        if k in VALUE_KINDS or k == "Python":
            ok, stored = accepts(k, v)
            exp = "ok" if ok else "TE"
            if out[0] == exp and ok:
                s[0], s[1] = "yes", stored
        elif k == "ReadOnly":
            if has == "no":
                exp = "ok"
            elif has == "yes":
                exp = "TE"
            else:
                exp = out[0] if out[0] in ("ok", "TE") else "TE"     # 'maybe': unspecified
            if out[0] == exp:
                if out[0] == "ok":
                    s[0], s[1] = "yes", v
                    if has == "no":
                        self.ctx.count("readonly_defining_assignments")
                else:
                    if has == "yes":
                        self.ctx.count("readonly_rejections")
                    s[0] = "yes"
        elif k in ("Constant", "Disallow", "ReadOnlyD"):
            exp = "TE"
            if k == "ReadOnlyD" and first_mention:
                self.ctx.count("readonly_declared_set_before_read")
        elif k == "Event":
            exp = "ok"
        else:
            raise AssertionError(k)
        self.observe("set:" + vclass, inst, name, kind, route, has, out[0])
        if out[0] != exp:
            if k == "ReadOnly":
                c = "second-assignment-accepted" if exp == "TE" and out[0] == "ok" else \
                    "defining-assignment-rejected-" + out[0]
            elif exp == "TE":
                c = "accepted-%s" % vclass if out[0] == "ok" else "wrong-exception-" + out[0]
            else:
                c = "rejected-%s-%s" % (vclass, out[0])
            self.fail("set/%s/%s" % (k, c),
                      "assignment %r = %r (governed by %s via %s, stored=%s) gave %s, expected %s"
                      % (name, v, kind, route, has, out[0], exp),
                      name=name, kind=kind, route=route, cls=inst.cls, value=v, expected=exp, got=out[0])
        if readback:
            self.do_get(inst, name, tag="readback")

    def do_fp(self, inst, name, values, readback, fn=setattr):
        for v in values:
            self.do_set(inst, name, v, readback, fn)

    def do_del(self, inst, name):
        if name in DUNDER:
            attempt(delattr, inst.obj, name)
            self.ctx.count("dunder_ops_unjudged")
            return
        kind, route = self.governing(inst, name)
        s = self.settle(inst, name, kind)
        inst.touched.add(name)
        self.class_seen.add((inst.cls, name))
        out, fired = self.access(inst, name, delattr)
        self.log.append(("del", inst.serial, name, out[0]))
        if fired:
            self.first_access("del", inst, name)
            kind, route = self.governing(inst, name)
            s = inst.state(name)
            if s[0] == "unknown":
                return
        k = kind[0]
        has = s[0]
        if out[0].startswith("EXC-"):
            self.fail("del/%s/unexpected-%s" % (k, out[0]), "del %r raised %s" % (name, out[0]),
                      name=name, kind=kind)
        if k == "Event":
            self.ctx.count("unjudged_event_deletes")       # not specified
            return
        if k in VALUE_KINDS:
            allowed = ("ok",)
        elif k == "Python":
            allowed = ("ok",) if has == "yes" else ("AE",)
        elif k in ("ReadOnly", "ReadOnlyD", "Constant"):
            allowed = ("TE",)
        else:                       # Disallow: rejected, class of rejection not specified
            allowed = ("TE", "AE")
        self.observe("del", inst, name, kind, route, has, out[0])
        if out[0] not in allowed:
            c = "deleted" if out[0] == "ok" else "rejected-" + out[0]
            self.fail("del/%s/%s" % (k, c),
                      "del %r (governed by %s via %s, stored=%s) gave %s, expected %s"
                      % (name, kind, route, has, out[0], "/".join(allowed)),
                      name=name, kind=kind, route=route, cls=inst.cls, got=out[0])
        if out[0] == "ok":
            s[0], s[1] = "no", None

    def do_add(self, inst, name, kind):
        # add_trait itself announces a new name; which of the two add_trait
        # calls would win is not specified, so the listener stays out of it.
        self.explicit_add = (inst.serial, name)
        try:
            out = attempt(inst.obj.add_trait, name, mk_trait(kind))
        finally:
            self.explicit_add = None
        self.log.append(("add_trait", inst.serial, name, kind, out[0]))
        self.class_seen.add((inst.cls, name))
        self.ctx.ev()
        if out[0] != "ok":
            self.fail("add_trait/%s/raised-%s" % (kind[0], out[0]),
                      "add_trait(%r, %s) raised %s" % (name, kind[0], out[0]), name=name, kind=kind)
        inst.itraits[name] = kind
        s = inst.state(name)
        if name in inst.touched or inst.read_all or s[0] != "no":
            s[0], s[1] = "unknown", None
        self.ctx.sig("add", kind[0], _resolve_class(self.models[inst.cls], name)[1][0], self.root)

    def do_hook(self, inst, name, values, readback):
        """on_trait_change(handler, name) as the (possibly first) mention of a
        name, then a fingerprint.  The registration itself is not judged."""
        def handler():
            pass
        n0 = len(self.listener_log)
        out = attempt(inst.obj.on_trait_change, handler, name)
        if out[0] == "ok":
            inst.handlers.setdefault(name, []).append(handler)
        fired = (inst.serial, name) in self.listener_log[n0:]
        self.log.append(("on_trait_change", inst.serial, name, out[0], fired))
        self.class_seen.add((inst.cls, name))
        inst.hooked.add(name)
        self.ctx.count("hook_ops")
        if self.hook_errors:
            self.fail("listener/add_trait-raised-%s" % self.hook_errors[0][3],
                      "add_trait called from a trait_added listener raised: %r" % (self.hook_errors[0],))
        if out[0].startswith("EXC-"):
            self.fail("on_trait_change/unexpected-%s" % out[0],
                      "on_trait_change(handler, %r) raised %s" % (name, out[0]), name=name)
        if fired:
            self.first_access("hook", inst, name)
        self.do_fp(inst, name, values, readback)

    def do_unhook(self, inst, name, values):
        """on_trait_change(handler, name, remove=True) of a registered handler
        (often the last one).  Only remove_trait may take an instance trait
        away, so whatever governed the name before still does: a read and a
        fingerprint follow, judged as usual."""
        hs = inst.handlers.get(name)
        handler = hs.pop()
        if not hs:
            del inst.handlers[name]
        out = attempt(inst.obj.on_trait_change, handler, name, True)
        kind, route = self.governing(inst, name)
        self.log.append(("on_trait_change-remove", inst.serial, name, out[0], len(hs)))
        self.ctx.count("unhook_ops")
        if not hs:
            self.ctx.count("unhook_last_handler")
            if route[0] == "instance":
                self.ctx.count("unhook_last_handler_on_instance_trait")
        self.ctx.sig("unhook", kind[0], route[0], route[1] if route[0] == "instance" else None,
                     not hs, out[0])
        if out[0] != "ok":
            self.fail("on_trait_change-remove/raised-%s" % out[0],
                      "on_trait_change(handler, %r, remove=True) raised %s" % (name, out[0]), name=name)
        self.key_override = "on_trait_change-remove/governing-trait-changed"
        self.do_get(inst, name, tag="read-after-unhook")
        self.do_fp(inst, name, values, True)

    def do_copy(self, inst, how):
        """pickle / copy.copy / copy.deepcopy round trip.  The copy is a new
        object of the same class to which no instance trait was added, so the
        class-level rules govern it; it may carry any values those rules
        accept.  A refused restore (TraitError) is fine."""
        m = self.models[inst.cls]
        critical = 0
        for name, kind in inst.itraits.items():
            st = inst.st.get(name)
            if st is not None and st[0] == "yes" and kind[0] in VALUE_KINDS + ("Python", "ReadOnly"):
                ck = _resolve_class(m, name)[0][0]
                if ck in ("Disallow", "Constant", "ReadOnlyD", "Event") or \
                        (ck in VALUE_KINDS and not accepts(ck, st[1])[0]):
                    critical += 1
        obj = inst.obj
        inst.read_all = True
        if how.startswith("pickle"):
            proto = int(how[6:])
            out = attempt(lambda: pickle.loads(pickle.dumps(obj, proto)))
        elif how == "copy":
            out = attempt(copy_module.copy, obj)
        else:
            out = attempt(copy_module.deepcopy, obj)
        hk = "pickle" if how.startswith("pickle") else how
        self.log.append(("copy", how, inst.serial, out[0], sorted(inst.itraits)))
        self.ctx.ev()
        self.ctx.count("copy_ops")
        self.ctx.count("copy_ops_%s" % hk)
        if inst.itraits:
            self.ctx.count("copy_source_with_instance_traits")
        if critical:
            self.ctx.count("copy_source_value_refused_by_class_rule")
        self.ctx.sig("copy", hk, out[0], bool(inst.itraits), bool(critical), self.root)
        if out[0] == "TE":
            self.ctx.count("copy_refused")
            return None
        if out[0] != "ok" or type(out[1]) is not type(obj) or out[1] is obj:
            self.fail("copy-%s/unexpected-%s" % (hk, out[0]),
                      "%s round trip gave %s %s" % (how, out[0], short(out[1], 60)))
        c = Inst(len(self.insts), inst.cls, out[1])
        c.default_has = "copied"
        c.origin = hk
        self.insts.append(c)
        self.by_id[id(c.obj)] = c
        self.ctx.count("copies_made")
        self.ctx.count("copies_made_%s" % hk)
        if critical:
            self.ctx.count("copies_made_despite_refused_value")
        # look at the names that mattered on the source right away
        names = sorted(set(inst.itraits) | set(n for n, st in inst.st.items() if st[0] in ("yes", "maybe")))
        for name in names[:6]:
            if name in DUNDER:
                continue
            self.key_override = "copy-%s/readable-value-against-class-level-rule" % hk
            self.do_get(c, name, tag="get-on-copy")
        self.key_override = None
        return c

    def do_new_kw(self, ci, name, v):
        """Constructor keyword: an assignment on an object on which the name
        was never read.  Returns the new Inst, or None when the constructor
        (rightly) refused."""
        kind, route = _resolve_class(self.models[ci], name)
        k = kind[0]
        vclass = type(v).__name__
        out = attempt(lambda: self.classes[ci](**{name: v}))
        self.log.append(("new-kw", ci, name, v, out[0]))
        self.class_seen.add((ci, name))
        if k in VALUE_KINDS or k == "Python":
            ok, stored = accepts(k, v)
            exp = "ok" if ok else "TE"
        elif k == "ReadOnly":
            ok, stored, exp = True, v, "ok"
        elif k == "Event":
            ok, stored, exp = False, None, "ok"
        else:                           # Constant, ReadOnlyD, Disallow
            ok, stored, exp = False, None, "TE"
        self.ctx.ev()
        self.ctx.count("constructor_kw_checks")
        if k == "ReadOnlyD":
            self.ctx.count("constructor_kw_readonly_declared")
        self.ctx.sig("new-kw", k, route[0], self.root, vclass, out[0])
        if out[0] != exp:
            if out[0].startswith("EXC-"):
                c = "unexpected-" + out[0]
            elif exp == "TE":
                c = "accepted-%s" % vclass if out[0] == "ok" else "wrong-exception-" + out[0]
            else:
                c = "rejected-%s-%s" % (vclass, out[0])
            self.fail("new-kw/%s/%s" % (k, c),
                      "constructor keyword %s=%r (governed by %s via %s) gave %s, expected %s"
                      % (name, v, kind, route, out[0], exp),
                      name=name, kind=kind, route=route, cls=ci, value=v, expected=exp, got=out[0])
        if out[0] != "ok":
            return None
        inst = Inst(len(self.insts), ci, out[1])
        self.insts.append(inst)
        self.by_id[id(inst.obj)] = inst
        inst.touched.add(name)
        if ok:
            st = inst.state(name)
            st[0], st[1] = "yes", stored
        return inst

    def do_remove(self, inst, name, read_now=True):
        had = name in inst.itraits
        s = inst.state(name)
        out = attempt(inst.obj.remove_trait, name)
        self.log.append(("remove_trait", inst.serial, name, out[0], out[1]))
        self.class_seen.add((inst.cls, name))
        self.ctx.ev()
        if out[0] != "ok":
            self.fail("remove_trait/raised-%s" % out[0], "remove_trait(%r) raised %s" % (name, out[0]),
                      name=name)
        self.ctx.sig("remove", had, out[1], s[0], self.root)
        if had:
            if out[1] is not True:
                self.fail("remove_trait/instance-trait/returned-%r" % (out[1],),
                          "remove_trait(%r) of an existing instance trait returned %r" % (name, out[1]),
                          name=name)
            del inst.itraits[name]
            inst.removed.add(name)
            inst.hooked.discard(name)
            # "removing an instance trait restores the class-level rule": the
            # value stored under the removed trait goes with it, so the name now
            # behaves as a never-assigned name of the class-level rule (default /
            # constant / Undefined and writable once / AttributeError for Event,
            # Disallow and plain Python attributes).  No leniency here, unlike
            # add_trait, which keeps the old value.
            s[0], s[1] = "no", None
            self.ctx.count("instance_traits_removed")
            if read_now:
                self.ctx.count("reads_directly_after_remove")
                self.do_get(inst, name, tag="read-after-remove",
                            key="remove_trait/instance-trait/leftover-value")
            return
        if out[1] is not False:
            self.fail("remove_trait/no-instance-trait/returned-%r" % (out[1],),
                      "remove_trait(%r) without an instance trait returned %r" % (name, out[1]),
                      name=name)
        # nothing was removed, so nothing may have changed: same readable state,
        # same write-once status.
        self.ctx.count("noop_removes_checked")
        if s[0] in ("yes", "maybe"):
            kind, route = self.governing(inst, name)
            got = attempt(getattr, inst.obj, name)
            self.log.append(("read-after-noop-remove", inst.serial, name, got[0], short(got[1], 30)))
            self.ctx.ev()
            self.ctx.count("noop_removes_with_value")
            if got[0] != "ok" or not (got[1] is s[1] or same(got[1], s[1])):
                self.fail("remove_trait/no-instance-trait/value-lost",
                          "remove_trait(%r) returned False (no instance trait) but the stored value %r of "
                          "the %s-governed attribute is gone: read now gives %s %r"
                          % (name, s[1], kind[0], got[0], got[1]),
                          name=name, kind=kind, route=route, cls=inst.cls, before=s[1], after=got)


    # -- 'indirect' stratum: the same name reached through other routes ---------
    def indirect_begin(self, family, label, inst, name, write):
        """Counters of one indirect operation; -> True when this is the first
        mention of the name on any instance of the object's class."""
        ctx = self.ctx
        kind, route = self.governing(inst, name)
        first = (inst.cls, name) not in self.class_seen
        self.via = label
        ctx.count("indirect_ops")
        ctx.count("indirect_%s_ops" % family)
        wild = route[0].startswith("prefix") or route[0] == "default"
        if first:
            ctx.count("indirect_first_access_ops")
            ctx.count("indirect_first_access_%s" % family)
            if wild:
                ctx.count("indirect_first_access_wildcard_or_default")
                if route[0].startswith("prefix"):
                    ctx.count("indirect_first_access_wildcard")
                if write:
                    ctx.count("indirect_first_write_wildcard_or_default")
        ctx.sig("indirect", label, kind[0], route[0], first, write, self.root)
        return first

    def new_view(self, inst, name, plan):
        self.nviews += 1
        view, dname = IND.make_view("%s_%d" % (self.case.replace(":", "_"), self.nviews), plan, inst.obj)
        inst.keep.append(view)
        if plan[2]:
            # a listenable deferring trait makes traits hook the target name on the
            # delegate (a bookkeeping instance trait, like on_trait_change(handler, name))
            inst.hooked.add(name)
        self.log.append(("view", inst.serial, name, plan))
        return view, dname

    def do_delegate(self, inst, name, plan, what, values, readback):
        """A DelegatesTo-style deferring trait on another object: reads and
        writes land on `name` of inst.obj and are judged exactly like direct
        ones (then read back directly)."""
        label = IND.via_label(plan)
        first = self.indirect_begin("delegate", label, inst, name, what != "get")
        if plan[1] != "same":
            self.ctx.count("indirect_delegate_renamed_ops")
            if first and what != "get" and not plan[2]:
                self.ctx.count("indirect_first_write_renamed_unlistenable")
        try:
            view, dname = self.new_view(inst, name, plan)
        except Exception as e:  # noqa: BLE001
            self.fail("view-construction/raised-%s" % type(e).__name__,
                      "constructing the delegating object for %r raised %r" % (name, e), name=name)
        self.ctx.count("indirect_delegate_%s" % ("reads" if what == "get" else "writes"))
        if what == "get":
            self.do_get(inst, name, tag="get-via-" + label, fn=IND.view_getter(view, dname))
        else:
            self.do_fp(inst, name, values, readback, fn=IND.view_setter(view, dname))
            if not readback:
                self.do_get(inst, name, tag="read-after-writes-via-" + label)

    def do_prototype(self, inst, name, plan, values):
        """A PrototypedFrom-style deferring trait: the definition (hence the
        accept pattern, write-once policy, ...) is that of `name` on inst.obj,
        the accepted value stays on the view; inst.obj is left untouched."""
        kind, route = self.governing(inst, name)
        k = kind[0]
        self.settle(inst, name, kind)
        label = IND.via_label(plan)
        first = self.indirect_begin("prototype", label, inst, name, True)
        if plan[1] != "same":
            self.ctx.count("indirect_prototype_renamed_ops")
            if first and not plan[2]:
                self.ctx.count("indirect_first_write_renamed_unlistenable")
        self.class_seen.add((inst.cls, name))
        try:
            view, dname = self.new_view(inst, name, plan)
        except Exception as e:  # noqa: BLE001
            self.fail("view-construction/raised-%s" % type(e).__name__,
                      "constructing the prototyped object for %r raised %r" % (name, e), name=name)
        if k == "ReadOnlyD" and kind[2] != "arg":
            # the default method / class value belongs to the prototype's class: whether
            # it also defines the local copy is not specified
            self.ctx.count("indirect_prototype_unjudged")
            return
        local = "no"
        for v in values:
            out = attempt(setattr, view, dname, v)
            vclass = type(v).__name__
            self.log.append(("set-via-" + label, inst.serial, name, dname, v, out[0]))
            exp, stores, stored = predict_write(kind, local, v)
            self.ctx.ev()
            self.ctx.count("indirect_prototype_writes")
            self.ctx.sig("proto-set", k, route[0], vclass, local, out[0])
            if out[0].startswith("EXC-"):
                self.fail("set/%s/unexpected-%s" % (k, out[0]),
                          "assignment through %s=%r raised %s" % (dname, v, out[0]), name=name, kind=kind)
            if out[0] != exp:
                if k == "ReadOnly":
                    c = "second-assignment-accepted" if exp == "TE" else \
                        "defining-assignment-rejected-" + out[0]
                elif exp == "TE":
                    c = "accepted-%s" % vclass if out[0] == "ok" else "wrong-exception-" + out[0]
                else:
                    c = "rejected-%s-%s" % (vclass, out[0])
                self.fail("set/%s/%s" % (k, c),
                          "assignment %s = %r on an object whose trait %r is prototyped from %r (governed "
                          "there by %s via %s) gave %s, expected %s"
                          % (dname, v, dname, name, kind, route, out[0], exp),
                          name=name, kind=kind, route=route, cls=inst.cls, value=v, expected=exp, got=out[0])
            if exp == "ok" and stores:
                local = "yes"
                got = attempt(getattr, view, dname)
                if got[0] != "ok" or not (got[1] is stored or same(got[1], stored)):
                    self.fail("get/%s/wrong-value" % k,
                              "after the accepted assignment %s = %r the prototyped trait reads %s %r, "
                              "expected %r" % (dname, v, got[0], got[1], stored),
                              name=name, kind=kind, route=route, cls=inst.cls, value=v, got=got)
        # the prototype itself was not written
        self.do_get(inst, name, tag="prototype-after-local-writes")

    def do_sync(self, inst, name, values, mutual):
        """other.sync_trait('v', inst.obj, name, mutual): the initial copy and
        every forwarded change are assignments to `name` on inst.obj (the
        forwarding swallows a rejection, so forwarded assignments are judged by
        the direct read that follows them)."""
        kind, route = self.governing(inst, name)
        k = kind[0]
        s = self.settle(inst, name, kind)
        if s[0] not in ("yes", "no"):
            self.do_fp(inst, name, values, True)
            return
        label = "sync_trait-%s" % ("mutual" if mutual else "oneway")
        self.indirect_begin("sync", label, inst, name, True)
        inst.touched.add(name)
        self.class_seen.add((inst.cls, name))
        src = IND.SyncSource()
        src.v = values[0]
        inst.keep.append(src)
        exp, stores, stored = predict_write(kind, s[0], values[0])
        out = attempt(src.sync_trait, "v", inst.obj, name, mutual)
        self.log.append(("sync_trait", inst.serial, name, mutual, values[0], out[0]))
        self.ctx.ev()
        self.ctx.count("indirect_sync_links")
        self.ctx.sig("sync-link", k, route[0], mutual, type(values[0]).__name__, s[0], out[0])
        if mutual:
            inst.hooked.add(name)
        allowed = (exp,)
        if mutual and k == "Event":
            allowed = ("ok", "AE")      # the reverse link reads the attribute back
        if out[0] not in allowed:
            vclass = type(values[0]).__name__
            if out[0].startswith("EXC-"):
                c = "unexpected-" + out[0]
            elif exp == "TE":
                c = "accepted-%s" % vclass if out[0] == "ok" else "wrong-exception-" + out[0]
            else:
                c = "rejected-%s-%s" % (vclass, out[0])
            self.fail("link/%s/%s" % (k, c),
                      "sync_trait to %r (governed by %s via %s, stored=%s) with initial value %r gave %s, "
                      "expected %s" % (name, kind, route, s[0], values[0], out[0], exp),
                      name=name, kind=kind, route=route, cls=inst.cls, value=values[0], got=out[0])
        if exp == "ok" and stores:
            s[0], s[1] = "yes", stored
        self.do_get(inst, name, tag="read-after-sync-link")
        for v in values[1:]:
            s = inst.state(name)
            if s[0] not in ("yes", "no"):
                break
            exp, stores, stored = predict_write(kind, s[0], v)
            out = attempt(setattr, src, "v", v)
            self.log.append(("sync-forward", inst.serial, name, v, out[0]))
            self.ctx.count("indirect_sync_writes")
            if out[0] != "ok":
                self.fail("forward/raised-%s" % out[0],
                          "assignment to the synchronised source raised %s" % out[0], name=name, kind=kind)
            if exp == "ok" and stores:
                s[0], s[1] = "yes", stored
            self.do_get(inst, name, tag="read-after-sync-forward")

    def do_register(self, inst, name, reg, values, readback, unregister):
        """observe / on_trait_change registration as the (possibly first)
        mention of a name; not judged itself, the fingerprint after it is."""
        rname, fn = reg
        self.indirect_begin("register", "after-" + rname, inst, name, False)
        self.class_seen.add((inst.cls, name))
        out = attempt(fn, inst.obj, name)
        self.log.append(("register", rname, inst.serial, name, out[0]))
        inst.hooked.add(name)
        self.do_fp(inst, name, values, readback)
        if unregister and out[0] == "ok" and rname == "observe-optional":
            out = attempt(IND.unreg_observe, inst.obj, name)
            self.log.append(("unregister", rname, inst.serial, name, out[0]))
            self.ctx.count("indirect_unregister_ops")
            self.do_get(inst, name, tag="read-after-unobserve")
            self.do_fp(inst, name, values[:2], True)

    def do_peek(self, inst, name, peek, values, readback):
        """trait() / base_trait() / trait_names() / traits() look-ups as the
        (possibly first) mention of a name; unjudged, the fingerprint is."""
        pname, fn = peek
        self.indirect_begin("peek", "after-" + pname, inst, name, False)
        self.class_seen.add((inst.cls, name))
        out = attempt(fn, inst.obj, name)
        self.log.append(("peek", pname, inst.serial, name, out[0]))
        self.do_fp(inst, name, values, readback)

    def do_validate(self, inst, name, values):
        """validate_trait(name, value): legal exactly when the governing trait
        accepts the value (judged for the value kinds and untyped names)."""
        kind, route = self.governing(inst, name)
        k = kind[0]
        self.indirect_begin("validate", "validate_trait", inst, name, False)
        self.class_seen.add((inst.cls, name))
        for v in values:
            out = attempt(inst.obj.validate_trait, name, v)
            vclass = type(v).__name__
            self.log.append(("validate_trait", inst.serial, name, v, out[0]))
            if k not in VALUE_KINDS and k != "Python":
                self.ctx.count("indirect_validate_unjudged")
                continue
            ok, stored = accepts(k, v)
            exp = "ok" if ok else "TE"
            self.ctx.ev()
            self.ctx.count("indirect_validate_checks")
            self.ctx.sig("validate", k, route[0], vclass, out[0])
            if out[0] != exp:
                c = ("accepted-%s" % vclass) if out[0] == "ok" else "rejected-%s-%s" % (vclass, out[0])
                self.fail("validate/%s/%s" % (k, c),
                          "validate_trait(%r, %r) (governed by %s via %s) gave %s, expected %s"
                          % (name, v, kind, route, out[0], exp),
                          name=name, kind=kind, route=route, cls=inst.cls, value=v, got=out[0])
            if ok and not (out[1] is stored or same(out[1], stored)):
                self.fail("validate/%s/wrong-value" % k,
                          "validate_trait(%r, %r) (governed by %s via %s) returned %r, expected %r"
                          % (name, v, kind, route, out[1], stored),
                          name=name, kind=kind, route=route, cls=inst.cls, value=v, got=out)


def predict_write(kind, has, v):
    """Outcome of assigning v to a name governed by `kind` whose stored state is
    `has` ('yes' / 'no'): -> (expected outcome, stores a value?, stored value)."""
    k = kind[0]
    if k in VALUE_KINDS or k == "Python":
        ok, stored = accepts(k, v)
        return ("ok" if ok else "TE"), ok, stored
    if k == "ReadOnly":
        return ("ok", True, v) if has == "no" else ("TE", False, None)
    if k == "Event":
        return "ok", False, None
    return "TE", False, None            # Constant, ReadOnlyD, Disallow


def picklable_variant(rng, root, steps):
    """'copy' stratum: an object with a ReadOnly that is defined by its
    declaration refuses every restore (TraitError), so most of these are
    turned into plain ReadOnly here.  -> (steps, models)"""
    out, models = [], []
    for st in steps:
        if st[0] == "class":
            decl = []
            for name, kind in st[3]:
                if kind[0] == "ReadOnlyD" and rng.random() < 0.9:
                    if kind[2] in ("classvalue", "defmethod"):
                        continue
                    kind = ("ReadOnly", None)
                decl.append((name, kind))
            st = ("class", st[1], st[2], decl)
            model_new_class(models, root, st[1], st[2], decl)
        else:
            if st[3][0] == "ReadOnlyD" and rng.random() < 0.9:
                st = (st[0], st[1], st[2], ("ReadOnly", None))
            model_add_class(models, st[1], st[2], st[3])
        out.append(st)
    return out, models


def run_history(ctx, case, rng, stratum, lrng=None):
    sharing = None
    if stratum == "shared":
        root, steps, models, sharing = gen_setup_shared(rng)
    else:
        root, steps, models = gen_setup(rng)
    if stratum == "copy":
        steps, models = picklable_variant(rng, root, steps)
    hub = listeners = None
    if stratum == "listener":
        hub = ListenerHub()
        listeners = gen_listeners(lrng, len(models))
    classes = build(root, steps, case.replace(":", "_"), hub, listeners, sharing,
                    register=(stratum == "copy"))
    try:
        return _run_history(ctx, case, rng, stratum, lrng, root, steps, models, classes, hub,
                            listeners, sharing)
    finally:
        if stratum == "copy":
            for c in classes:
                if getattr(sys.modules[__name__], c.__name__, None) is c:
                    delattr(sys.modules[__name__], c.__name__)


def _run_history(ctx, case, rng, stratum, lrng, root, steps, models, classes, hub, listeners,
                 sharing):
    H = History(ctx, case, root, steps, models, classes, stratum)
    if sharing is not None:
        H.sharing = sharing
        for m in models:
            names = set(H.static_handled.get(m.parent, ())) if m.parent is not None else set()
            names.update(n for ci, n in sharing["changed"] if ci == m.idx)
            H.static_handled[m.idx] = names
        ctx.count("shared_hierarchies")
        ctx.count("shared_definitions", len(sharing["defs"]))
        ctx.count("shared_slots", len(sharing["slots"]))
        ctx.count("shared_slots_with_changed_handler", len(sharing["changed"]))
        kinds = {(ci, n): k for st in steps for n, k in st[3] for ci in (st[1],)}
        per_def = {}
        for sid, ci, n in sharing["slots"]:
            per_def.setdefault(sid, []).append(len(kinds[(ci, n)]) > 2)
            if len(kinds[(ci, n)]) > 2:
                ctx.count("shared_slots_with_default_method")
        for sid, flags in per_def.items():
            if any(flags) and not all(flags) and sharing["defs"][sid][2] == "ctrait":
                ctx.count("shared_ctrait_defs_mixing_default_method_and_plain")
    if stratum == "copy":
        ctx.count("copy_hierarchies")
    if hub is not None:
        hub.H = H
        H.listeners = listeners
        ctx.count("listener_hierarchies")

    def new_instance(ci):
        inst = H.new_instance(ci)
        if listeners is not None and lrng.random() < listeners["dynamic_p"]:
            rule = lrng.choice(listeners["dynamic_rules"])
            inst.dyn = hub.dynamic(*rule)
            inst.obj.on_trait_change(inst.dyn, "trait_added")
            H.log.append(("dynamic-trait_added-listener", inst.serial, rule))
            ctx.count("dynamic_listeners")
        return inst
    ctx.count("hierarchies")
    for ci in range(len(classes)):
        new_instance(ci)
    for _ in range(rng.randint(0, 2)):
        new_instance(rng.randrange(len(classes)))
    pool = name_pool(models)
    if listeners is not None:
        # more never-mentioned names, so that first resolutions stay frequent
        extra = set(("n1", "m2", "zq", "w", "_w", "b7", "xq"))
        for p, _ in list(listeners["static"].values()) + listeners["dynamic_rules"]:
            extra.update((p + "7", p + "q", p + "_y"))
        pool = sorted(set(pool) | extra)
    hot = rng.sample(pool, min(len(pool), 8))     # names revisited often: cache reuse
    if sharing is not None:
        slot_names = sorted(set(n if not n.endswith("_") else n[:-1] + "q" for _, _, n in sharing["slots"]))
        hot = sorted(set(hot[:3]) | set(slot_names))
    nsteps = 40
    weights = {"fp": 3, "set": 3, "get": 3, "del": 1.5, "add": 1.5, "remove": 1.5, "new": 0.8,
               "hook": 1.0, "unhook": 1.0}
    if stratum == "noop":
        weights["remove"] = 4
    if stratum == "listener":
        weights.update({"del": 2.5, "hook": 2.0, "unhook": 1.5, "add": 1.0})
    if stratum == "copy":
        weights.update({"add": 3.0, "copy": 3.0, "remove": 0.8, "hook": 0.5, "unhook": 0.5, "del": 1.0})
    if stratum == "shared":
        weights.update({"get": 4, "new": 1.2})
    if stratum == "indirect":
        ctx.count("indirect_hierarchies")
        weights = {"fp": 1.0, "set": 1.0, "get": 1.0, "del": 0.7, "add": 1.0, "remove": 0.8, "new": 0.8,
                   "hook": 0.3, "unhook": 0.3,
                   "i-dset": 3.0, "i-dget": 1.2, "i-proto": 1.6, "i-tset": 1.2, "i-tget": 0.8,
                   "i-sync": 1.2, "i-reg": 1.2, "i-peek": 1.0, "i-validate": 0.8}

    def fp_values():
        order = list(VCLASSES)
        rng.shuffle(order)
        return [value_for(rng, c) for c in order]
    opnames = list(weights)
    opw = [weights[o] for o in opnames]
    try:
        for step in range(nsteps):
            H.key_override = None
            inst = rng.choice(H.insts)
            op = rng.choices(opnames, opw)[0]
            r = rng.random()
            if r < (0.5 if listeners is None else 0.3):
                name = rng.choice(hot)
            elif r < 0.97:
                name = rng.choice(pool)
            else:
                name = rng.choice(DUNDER)
            ctx.count("history_ops")
            H.via = None
            if op.startswith("i-"):
                # indirect routes: mostly as the first mention of the name on the class
                fresh = [n for n in pool if (inst.cls, n) not in H.class_seen]
                if fresh and rng.random() < 0.75:
                    name = rng.choice(fresh)
                if name in DUNDER:
                    name = rng.choice(pool)
                readback = rng.random() < 0.7
                if op == "i-dset" or op == "i-dget":
                    plan = IND.plan_view(rng, name, pool, IND.DELEGATE_MODES)
                    H.do_delegate(inst, name, plan, "get" if op == "i-dget" else "set",
                                  fp_values() if rng.random() < 0.7 else fp_values()[:1], readback)
                    if rng.random() < 0.3:
                        H.do_get(inst, name)        # the same route stays in the key
                elif op == "i-proto":
                    plan = IND.plan_view(rng, name, pool, IND.PROTOTYPE_MODES)
                    H.do_prototype(inst, name, plan, fp_values())
                elif op == "i-tset":
                    label, fn = rng.choice(IND.SETTERS)
                    H.indirect_begin("trait_set", label, inst, name, True)
                    H.do_fp(inst, name, fp_values() if rng.random() < 0.7 else fp_values()[:1],
                            readback, fn)
                elif op == "i-tget":
                    label, fn = rng.choice(IND.GETTERS)
                    H.indirect_begin("trait_get", label, inst, name, False)
                    H.do_get(inst, name, tag=label, fn=fn)
                elif op == "i-sync":
                    H.do_sync(inst, name, fp_values()[:rng.randint(1, 4)], rng.random() < 0.5)
                elif op == "i-reg":
                    H.do_register(inst, name, rng.choice(IND.REGISTRATIONS), fp_values(), readback,
                                  rng.random() < 0.4)
                elif op == "i-peek":
                    H.do_peek(inst, name, rng.choice(IND.PEEKS), fp_values(), readback)
                else:
                    H.do_validate(inst, name, fp_values())
                continue
            if op == "new":
                if len(H.insts) < 10:
                    ci = rng.randrange(len(classes))
                    if stratum == "indirect":
                        # constructor keyword as the first mention of the name on the class
                        fresh = [n for n in pool if (ci, n) not in H.class_seen]
                        if fresh and rng.random() < 0.75:
                            name = rng.choice(fresh)
                            ctx.count("indirect_first_access_constructor_kw")
                    if name not in DUNDER and rng.random() < 0.6:
                        # constructor keyword: assignment before any read
                        ni = H.do_new_kw(ci, name, value_for(rng, rng.choice(VCLASSES)))
                        if ni is not None and rng.random() < 0.5:
                            H.do_fp(ni, name, fp_values(), rng.random() < 0.6)
                        continue
                    ni = new_instance(ci)
                    H.log.append(("new", ni.serial, ni.cls))
                    continue
                op = "get"
            if op == "copy":
                if len(H.insts) < 14:
                    how = rng.choice(("pickle2", "pickle4", "pickle5", "copy", "deepcopy", "deepcopy"))
                    H.do_copy(inst, how)
                    continue
                op = "fp"
            if op == "unhook":
                if inst.handlers:
                    H.do_unhook(inst, rng.choice(sorted(inst.handlers)), fp_values())
                    continue
                op = "hook"
            if op == "get":
                H.do_get(inst, name)
            elif op == "set":
                v = value_for(rng, rng.choice(VCLASSES))
                H.do_set(inst, name, v, rng.random() < 0.75)
            elif op == "fp":
                order = list(VCLASSES)
                rng.shuffle(order)
                values = [value_for(rng, c) for c in order]
                H.do_fp(inst, name, values, rng.random() < 0.6)
            elif op == "del":
                H.do_del(inst, name)
            elif op == "add":
                if name in DUNDER or name.endswith("_"):
                    H.do_get(inst, name)
                    continue
                kind = gen_kind(rng, False)
                H.do_add(inst, name, kind)
                if rng.random() < 0.6:
                    order = list(VCLASSES)
                    rng.shuffle(order)
                    H.do_fp(inst, name, [value_for(rng, c) for c in order], rng.random() < 0.6)
            elif op == "hook":
                if inst.itraits and rng.random() < 0.5:
                    name = rng.choice(sorted(inst.itraits))     # a user-added instance trait
                if name in DUNDER or name.endswith("_"):
                    H.do_get(inst, name)
                    continue
                H.do_hook(inst, name, fp_values(), rng.random() < 0.6)
                if rng.random() < 0.35 and name in inst.handlers:
                    H.key_override = None
                    H.do_unhook(inst, name, fp_values())
            elif op == "remove":
                if inst.itraits and rng.random() < 0.7:
                    name = rng.choice(sorted(inst.itraits))
                if name in DUNDER:
                    continue
                if stratum != "noop" and name not in inst.itraits and inst.state(name)[0] != "no":
                    # pattern of the (fixed) finding F17 lives in the 'noop' stratum
                    H.do_get(inst, name)
                    continue
                if name in H.static_handled.get(inst.cls, ()) and name not in inst.itraits:
                    # same for a static _name_changed handler once it was notified
                    H.do_get(inst, name)
                    continue
                if name in inst.hooked and name not in inst.itraits:
                    # on_trait_change(handler, name) makes traits keep an instance trait of
                    # its own for the name; whether remove_trait sees it is not C13's business
                    H.do_get(inst, name)
                    continue
                had = name in inst.itraits
                # half of the removals are followed by other operations first
                # (e.g. the defining assignment of a class-level ReadOnly)
                H.do_remove(inst, name, rng.random() < 0.5)
                if had and rng.random() < 0.7:
                    order = list(VCLASSES)
                    rng.shuffle(order)
                    H.do_fp(inst, name, [value_for(rng, c) for c in order], rng.random() < 0.6)
    except Stop:
        ctx.count("histories_stopped_at_violation")
    return H


# --------------------------------------------------------------------------
# 'late' stratum: a rule added after the name was already resolved
# --------------------------------------------------------------------------

LATE_KINDS = ("Int", "Str", "Bool", "Float", "Any", "Disallow")
LATE_PATTERN = {"Int": ("ok", "TE", "ok", "TE", "TE"), "Str": ("TE", "ok", "TE", "TE", "TE"),
                "Bool": ("TE", "TE", "ok", "TE", "TE"), "Float": ("ok", "TE", "ok", "ok", "TE"),
                "Any": ("ok",) * 5, "Disallow": ("TE",) * 5}
LATE_VALUES = (3, "s", True, 2.5, None)


def run_late(ctx, case, rng):
    root = rng.choice(sorted(ROOTS))
    p = rng.choice(("a", "ab", "b", ""))
    ext = rng.choice(("c", "cd", "q"))
    name = p + ext + rng.choice(("", "z", "_1"))
    k1 = rng.choice(LATE_KINDS)
    k2 = rng.choice([k for k in LATE_KINDS if k != k1])
    variant = rng.choice(("subclass-longer", "subclass-same", "add-class-longer"))
    touch = rng.choice(("get", "set", "none", "get"))
    tag = case.replace(":", "_")
    base = ROOTS[root]
    B = type(base)("L%s_B" % tag, (base,), {p + "_": mk_trait((k1, None)), "__module__": __name__})
    b = B()
    if touch == "get":
        attempt(getattr, b, name)
    elif touch == "set":
        attempt(setattr, b, name, 3)
    new_rule = (p if variant == "subclass-same" else p + ext[:1]) + "_"
    if variant.startswith("subclass"):
        S = type(B)("L%s_S" % tag, (B,), {new_rule: mk_trait((k2, None)), "__module__": __name__})
        target = S()
        mech = "late-subclass"
    else:
        B.add_class_trait(new_rule, mk_trait((k2, None)))
        target = B()
        mech = "late-add-class-trait"
    got = tuple(attempt(setattr, target, name, v)[0] for v in LATE_VALUES)
    exp = LATE_PATTERN[k2]
    ctx.ev()
    ctx.count("late_checks")
    if touch != "none":
        ctx.count("late_checks_after_resolution")
    ctx.sig("late", variant, touch, root, k1, k2, got == exp)
    desc = {"root": root, "base_rule": [p + "_", k1], "name": name, "touch_on_base_instance": touch,
            "variant": variant, "new_rule": [new_rule, k2], "expected": exp, "got": got}
    if got != exp:
        if touch == "none":
            key = "%s/wrong-rule" % mech
        else:
            key = "%s/name-resolved-earlier-keeps-old-rule" % mech
        ctx.violation(key, "name %r on a fresh instance is not governed by the longest matching rule %s=%s "
                           "declared by %s (the base's rule is %s_=%s; the name was %s on a base instance "
                           "before): fingerprint %r, expected %r"
                      % (name, new_rule, k2, variant, p, k1,
                         "never touched" if touch == "none" else touch, got, exp), desc)
    return desc


# --------------------------------------------------------------------------
# 'bookkeeping' stratum: instance traits that traits creates for itself
# --------------------------------------------------------------------------
# traits keeps per-object copies of a class trait for its own purposes
# (`_trait(name, 2)`: on_trait_change(handler, name); the first notification of
# a static `_name_changed` handler).  remove_trait() cannot tell them from
# instance traits the user added: it returns True, deletes the stored value and
# so re-opens a write-once attribute although no instance trait was ever added.
# This is observed and counted here; it becomes a violation (own key) once
# REPORT_BOOKKEEPING_REMOVAL is set (the coordinator decides: it needs a
# known_findings entry or a fix first).
REPORT_BOOKKEEPING_REMOVAL = True
BOOKKEEPING_KEY = "remove_trait/bookkeeping-instance-trait/value-lost"


def run_bookkeeping(ctx, case, rng):
    root = rng.choice(sorted(ROOTS))
    k = rng.choice(("ReadOnly", "Int", "Str", "Any", "Float"))
    how = rng.choice(("static-handler", "on_trait_change", "on_trait_change-then-remove", "none"))
    name = rng.choice(("ro", "k", "abq"))
    v = {"ReadOnly": 11, "Int": 3, "Str": "s", "Any": "a", "Float": 1.5}[k]
    cname = "B%s" % case.replace(":", "_")
    ns = {"__module__": __name__, name: mk_trait((k, None))}
    if how == "static-handler":
        ns["_%s_changed" % name] = _noop_changed
    obj = type(ROOTS[root])(cname, (ROOTS[root],), ns)()

    def handler():
        pass
    if how.startswith("on_trait_change"):
        obj.on_trait_change(handler, name)
    setattr(obj, name, v)
    if how == "on_trait_change-then-remove":
        obj.on_trait_change(handler, name, remove=True)
    removed = attempt(obj.remove_trait, name)
    after = attempt(getattr, obj, name)
    second = attempt(setattr, obj, name, v) if k == "ReadOnly" else None
    ctx.ev()
    ctx.count("bookkeeping_checks")
    ctx.sig("bookkeeping", root, k, how, removed[1], after[0] == "ok" and same(after[1], v))
    desc = {"root": root, "kind": k, "how": how, "name": name, "value": v,
            "remove_trait": removed, "read_after": after, "second_assignment": second}
    ok = removed == ("ok", False) and after[0] == "ok" and same(after[1], v) and \
        (second is None or second[0] == "TE")
    if how == "none":
        ctx.count("bookkeeping_controls")
        if not ok:
            ctx.violation("remove_trait/no-instance-trait/value-lost",
                          "remove_trait(%r) on an object that never had an instance trait: %r" % (name, desc),
                          desc)
    elif not ok:
        ctx.count("bookkeeping_removals_observed")
        ctx.note("bookkeeping_instance_trait_removed_by_remove_trait",
                 {"key": BOOKKEEPING_KEY, "reported_as_violation": REPORT_BOOKKEEPING_REMOVAL,
                  "example": desc})
        if REPORT_BOOKKEEPING_REMOVAL:
            ctx.violation(BOOKKEEPING_KEY,
                          "no instance trait was added with add_trait, yet remove_trait(%r) returned %r and "
                          "the stored value is gone (%s): %r" % (name, removed[1], how, desc), desc)
    return desc


# --------------------------------------------------------------------------

def run(ctx):
    nh = ctx.scale(8000, 300000)
    for h in range(nh):
        if not ctx.mine(h):
            continue
        case = "hist:%d" % h
        stratum = "noop" if h % 6 == 5 else "main"
        if not ctx.begin(case, {"stratum": stratum}):
            continue
        try:
            H = run_history(ctx, case, ctx.rng("hist", h), stratum)
            if h == ctx.shard:
                ctx.sample({"root": H.root, "setup": H.steps, "stratum": stratum,
                            "history": H.log[:12]}, cap=2)
        finally:
            ctx.end()
    nls = ctx.scale(2400, 75000)
    for h in range(nls):
        if not ctx.mine(h):
            continue
        case = "lsn:%d" % h
        if not ctx.begin(case, {"stratum": "listener"}):
            continue
        try:
            H = run_history(ctx, case, ctx.rng("lsn", h), "listener", ctx.rng("lsn-listeners", h))
            if h == ctx.shard:
                ctx.sample({"root": H.root, "setup": H.steps, "stratum": "listener",
                            "listeners": H.listeners, "history": H.log[:12]}, cap=3)
        finally:
            ctx.end()
    for stratum, tag, n in (("shared", "shr", ctx.scale(1600, 50000)),
                            ("copy", "cpy", ctx.scale(1600, 50000)),
                            ("indirect", "ind", ctx.scale(1600, 50000))):
        for h in range(n):
            if not ctx.mine(h):
                continue
            case = "%s:%d" % (tag, h)
            if not ctx.begin(case, {"stratum": stratum}):
                continue
            try:
                H = run_history(ctx, case, ctx.rng(tag, h), stratum)
                if h == ctx.shard:
                    ctx.sample({"root": H.root, "setup": H.steps, "stratum": stratum,
                                "sharing": H.sharing, "history": H.log[:12]}, cap=5)
            finally:
                ctx.end()
    for h in range(ctx.scale(320, 4000)):
        if not ctx.mine(h):
            continue
        case = "bkp:%d" % h
        if not ctx.begin(case):
            continue
        try:
            run_bookkeeping(ctx, case, ctx.rng("bkp", h))
        finally:
            ctx.end()
    nl = ctx.scale(1600, 20000)
    for h in range(nl):
        if not ctx.mine(h):
            continue
        case = "late:%d" % h
        if not ctx.begin(case):
            continue
        try:
            d = run_late(ctx, case, ctx.rng("late", h))
            if h == ctx.shard:
                ctx.sample(d, cap=3)
        finally:
            ctx.end()
