"""C18 phase ref, second table of refcount-neutrality experiments.

Written after running the first table under the coverage build: it executed 50 % of the
functions of ctraits.c and left 78 INCREF/DECREF-bearing lines unexecuted (property getters /
setters / validators of every arity, adapt-mode instance validation, delegation failures,
definition look-ups through delegation, stand-alone Type / This / Callable / Complex / Enum / Map
validators, failing post_setattr hooks, failing notifiers that propagate, values whose comparison
raises, items events, vetoed notifications, failing default factories).  Each experiment is
(label, setup() -> state, op(state, sentinel), sentinel factory); the driver in c18.py repeats
`op` on the same state and requires the sentinel's reference count to be steady and the
allocated-block count not to drift.
"""
import copy

from traits.api import (
    HasTraits, Int, Float, Str, Any, List, Instance, Property, DelegatesTo, PrototypedFrom,
    TraitType, TraitError, Enum, Tuple, Either, Event, Callable, Supports, AdaptsTo, Type, This,
    Complex, CFloat, Bytes, Bool, Constant, Map, Interface, provides, Adapter, register_factory, Expression,
    push_exception_handler, pop_exception_handler, Undefined,
)
from traits.adaptation.api import AdaptationManager, set_global_adaptation_manager, get_global_adaptation_manager


class Obj2:
    """mortal sentinel"""
    def __init__(self, k=0):
        self.k = k


class EqRaises(Obj2):
    def __eq__(self, other):
        raise RuntimeError("eq")
    __hash__ = object.__hash__


class Indexable(Obj2):
    def __index__(self):
        return 10 ** 20 + self.k

    def __float__(self):
        return 0.5

    def __complex__(self):
        return complex(0.5, self.k)


class BadIndex(Obj2):
    def __index__(self):
        raise ValueError("index")

    def __float__(self):
        raise ValueError("float")


class IFoo(Interface):
    pass


@provides(IFoo)
class Foo(Obj2):
    pass


class Adaptable(Obj2):
    pass


@provides(IFoo)
class FooAdapter(Adapter):
    pass


def _boom(*a):
    raise ValueError("boom")


# ---- property functions of every arity (the C getter / setter / validator is chosen by it)
def g0():
    return STORE.get("v")


def g1(obj):
    return obj.__dict__.get("_pv")


def g2(obj, name):
    return obj.__dict__.get("_pv")


def g3(obj, name, trait):
    return obj.__dict__.get("_pv")


def s0():
    STORE["n"] = STORE.get("n", 0) + 1


def s1(value):
    STORE["v"] = value


def s2(obj, value):
    obj.__dict__["_pv"] = value


def s3(obj, name, value):
    obj.__dict__["_pv"] = value


def sraise(obj, name, value):
    raise TraitError("setter refuses")


def sr0():
    raise TraitError("setter refuses")


def sr1(value):
    raise TraitError("setter refuses")


def sr2(obj, value):
    raise TraitError("setter refuses")


def gr0():
    raise AttributeError("getter refuses")


def gr2(obj, name):
    raise AttributeError("getter refuses")


def gr3(obj, name, trait):
    raise AttributeError("getter refuses")


def graise(obj):
    raise AttributeError("getter refuses")


STORE = {}


class PostSet(TraitType):
    default_value = None

    def validate(self, obj, name, value):
        return value

    def post_setattr(self, obj, name, value):
        obj.__dict__["_shadow"] = value


class PostSetRaises(TraitType):
    default_value = None

    def validate(self, obj, name, value):
        return value

    def post_setattr(self, obj, name, value):
        raise TraitError("post_setattr refuses")


class Leaf2(HasTraits):
    px = Any


class P2(HasTraits):
    px = Any
    pi = Int
    deeper = Instance(Leaf2, ())
    dd = DelegatesTo("deeper", prefix="px")


class StrSub(str):
    """mortal, weak-referenceable string (a valid Expression source)"""


class H3(HasTraits):
    """traits that store the ORIGINAL value while their validator returns another object
    (AdaptsTo: the adapter; Expression: the compiled code), with CALLABLE defaults"""
    ada = AdaptsTo(IFoo)
    expr = Expression
    sup = Supports(IFoo)

    def _ada_default(self):
        return self.__dict__["src"]

    def _expr_default(self):
        return self.__dict__["src"]

    def _sup_default(self):
        return self.__dict__["src"]


class H2(HasTraits):
    p0 = Property(g0, s0)
    p1 = Property(g1, s1)
    p2 = Property(g2, s2)
    p3 = Property(g3, s3)
    pv0 = Property(g1, s2, Int)            # validated by a trait
    pv1 = Property(g1, s3, lambda v: v)    # validator functions of arity 1, 2, 3
    pv2 = Property(g1, s3, lambda o, v: v)
    pv3 = Property(g1, s3, lambda o, n, v: v)
    pvbad = Property(g1, s3, lambda o, n, v: _boom())
    psr = Property(g1, sraise)
    pgr = Property(graise, s2)
    # failing getters / setters of every arity (each arity has its own C function)
    psr0 = Property(g1, sr0)
    psr1 = Property(g1, sr1)
    psr2 = Property(g1, sr2)
    pgr0 = Property(gr0, s2)
    pgr2 = Property(gr2, s2)
    pgr3 = Property(gr3, s2)
    pvr1 = Property(g1, s3, lambda v: _boom())
    pvr2 = Property(g1, s3, lambda o, v: _boom())
    ro_prop = Property(g1)
    sup = Supports(IFoo)
    ada = AdaptsTo(IFoo)
    idef = Instance(IFoo, adapt="default")
    iyes = Instance(Foo, adapt="yes")
    ty = Type(Obj2)
    th = This
    ca = Callable
    cx = Complex
    cf = CFloat
    by = Bytes
    bo = Bool
    en = Enum(None, 1, "a")
    ma = Map({"a": 1, 1: 2})
    co = Constant(5)
    tup = Tuple(Any, Int)
    post = PostSet()
    postbad = PostSetRaises()
    eqm = Any()                            # equality comparison (the default): == is called
    nodelegate = Any
    dbad = DelegatesTo("nodelegate", prefix="px")
    p = Instance(P2, ())
    dx = DelegatesTo("p", prefix="px")
    ddx = DelegatesTo("p", prefix="dd")     # two hops
    pr = PrototypedFrom("p", prefix="pi")
    li = List(Any)
    ev = Event
    fdef = Any(factory=_boom)
    x = Any

    def _x_changed(self, new):
        pass


def _setop(name, errors=(TraitError, ValueError, AttributeError, RuntimeError, TypeError)):
    def op(h, s):
        try:
            setattr(h, name, s)
        except errors:
            pass
    return op


def _getop(name):
    def op(h, s):
        try:
            getattr(h, name)
        except (TraitError, ValueError, AttributeError, RuntimeError, TypeError):
            pass
    return op


def make(RefObjFactories):
    ob, bigint, fl, st, tup, lst = RefObjFactories
    ex = []

    def new():
        h = H2()
        h.on_trait_change(lambda: None, "p1")
        h.observe(lambda e: None, "x")
        return h

    def o2(k):
        return Obj2(k)

    def eqr(k):
        return EqRaises(k)

    def idx(k):
        return Indexable(k)

    def badidx(k):
        return BadIndex(k)

    def foo(k):
        return Foo(k)

    def adaptable(k):
        return Adaptable(k)

    def cls(k):
        return type("C%d" % k, (Obj2,), {})

    def fn(k):
        return lambda: k

    sentinels = (("obj", o2), ("bigint", bigint), ("float", fl), ("str", st), ("tuple", tup), ("list", lst),
                 ("eq-raises", eqr), ("indexable", idx), ("bad-index", badidx), ("provides", foo),
                 ("adaptable", adaptable), ("class", cls), ("function", fn))
    names = ("p0", "p1", "p2", "p3", "pv0", "pv1", "pv2", "pv3", "pvbad", "psr", "pgr", "psr0", "psr1", "psr2",
             "pgr0", "pgr2", "pgr3", "pvr1", "pvr2", "ro_prop", "sup", "ada",
             "idef", "iyes", "ty", "th", "ca", "cx", "cf", "by", "bo", "en", "ma", "co", "tup", "post", "postbad",
             "eqm", "dbad", "dx", "ddx", "pr", "ev", "x")
    for name in names:
        for sname, sf in sentinels:
            ex.append(("set2:%s<-%s" % (name, sname), new, _setop(name), sf))
        ex.append(("get2:" + name, new, _getop(name), o2))

    # the same value assigned twice under the equality rule: old == new is evaluated
    def twice(name):
        def op(h, s):
            for _ in (0, 1):
                try:
                    setattr(h, name, s)
                except (TraitError, RuntimeError, ValueError):
                    pass
        return op
    for name in ("eqm", "x", "tup", "dx"):
        ex.append(("set-twice:" + name + "<-eq-raises", new, twice(name), eqr))
        ex.append(("set-twice:" + name + "<-obj", new, twice(name), o2))

    # a failing change handler whose exception propagates to the caller
    def propagating(h, s):
        push_exception_handler(lambda *a: None, reraise_exceptions=True, main=True)
        try:
            for nm in ("x", "p1", "li"):
                try:
                    setattr(h, nm, [s] if nm == "li" else s)
                except Exception as e:
                    e.__traceback__ = None
            try:
                h.li.append(s)
            except Exception as e:
                e.__traceback__ = None
        finally:
            pop_exception_handler()

    def new_failing():
        h = new()
        h.on_trait_change(_boom, "x")
        h.on_trait_change(_boom, "p1")
        h.on_trait_change(_boom, "li")
        h.on_trait_change(_boom, "li_items")
        return h
    ex.append(("handler-raises/propagates", new_failing, propagating, o2))
    ex.append(("handler-raises/propagates<-list", new_failing, propagating, lst))

    def definition_lookups(h, s):
        for nm in ("dx", "ddx", "pr", "dbad", "nope", "p0", "sup"):
            for f in (h.trait, h.base_trait, lambda n: h._trait(n, 0), lambda n: h._trait(n, 2),
                      lambda n: h._trait(n, -1)):
                try:
                    f(nm)
                except Exception as e:
                    e.__traceback__ = None
        h.dx = s
        h.p = P2()
    ex.append(("definition-lookups-through-delegation", new, definition_lookups, o2))

    def delegate_breaks(h, s):
        h.dx = s
        old = h.p
        h.p = None
        for f in (lambda: h.dx, lambda: setattr(h, "dx", s), lambda: h.ddx, lambda: h.pr,
                  lambda: setattr(h, "pr", s)):
            try:
                f()
            except Exception as e:
                e.__traceback__ = None
        h.p = old
    ex.append(("delegate-is-None", new, delegate_breaks, o2))

    def items_event(h, s):
        from traits.api import TraitListEvent
        ev = h.trait("li").handler.items_event()
        good = TraitListEvent(index=0, removed=[s], added=[s])
        for args in (("li_items", good, ev), ("li_items", s, ev), ("nolist_items", good, ev),
                     ("nolist_items", s, ev), ("li_items", good, s)):
            try:
                h.trait_items_event(*args)
            except Exception as e:
                e.__traceback__ = None
        try:
            h.remove_trait("nolist_items")
        except Exception as e:
            e.__traceback__ = None
    ex.append(("trait_items_event", new, items_event, o2))

    def vetoed(h, s):
        h._trait_veto_notify(True)
        h.x = s
        h.li = [s]
        h._trait_veto_notify(False)
        h._trait_change_notify(False)
        h.x = None
        h._trait_change_notify(True)
        h.x = s
        h.x = None
        h.li = []
    ex.append(("vetoed / disabled notifications", new, vetoed, o2))

    def failing_default(h, s):
        h.__dict__.pop("fdef", None)
        try:
            h.fdef
        except ValueError as e:
            e.__traceback__ = None
        try:
            h.trait("fdef").default_value_for(h, "fdef")
        except ValueError as e:
            e.__traceback__ = None
    ex.append(("default-factory-raises", new, failing_default, o2))

    def validate_direct(h, s):
        for nm in ("sup", "ada", "idef", "ty", "th", "ca", "cx", "cf", "en", "ma", "tup", "pv0"):
            try:
                h.trait(nm).validate(h, nm, s)
            except Exception as e:
                e.__traceback__ = None
    for sname, sf in sentinels:
        ex.append(("validate2<-" + sname, new, validate_direct, sf))

    def property_changed(h, s):
        h.trait_property_changed("p1", s, s)
        h.trait_property_changed("p1", None, s)
        h.trait_property_changed("nope", s, None)
    ex.append(("trait_property_changed2", new, property_changed, o2))

    # callable defaults of traits that keep the original value
    def dyn_default(name):
        def op(h, s):
            h.__dict__["src"] = s
            for f in (lambda: getattr(h, name), lambda: h.trait(name).default_value_for(h, name),
                      lambda: delattr(h, name), lambda: getattr(h, name)):
                try:
                    f()
                except Exception as e:
                    e.__traceback__ = None
            h.__dict__.pop(name, None)
            h.__dict__.pop(name + "_", None)
            h.__dict__.pop("src", None)
        return op

    def new3():
        h = H3()
        h.on_trait_change(lambda: None, "ada")
        return h

    def strsub(k):
        return StrSub("1 + %d" % k)
    for mk, label in ((H3, "plain"), (new3, "listened")):
        ex.append(("dyn-default/original-value/AdaptsTo/%s" % label, mk, dyn_default("ada"), adaptable))
        ex.append(("dyn-default/original-value/AdaptsTo/%s<-provides" % label, mk, dyn_default("ada"), foo))
        ex.append(("dyn-default/original-value/Expression/%s" % label, mk, dyn_default("expr"), strsub))
        ex.append(("dyn-default/Supports/%s" % label, mk, dyn_default("sup"), adaptable))

    def clone_and_copy(h, s):
        h.x = s
        h.post = s
        for f in (lambda: copy.copy(h), h.clone_traits, h.trait_get):
            try:
                f()
            except Exception as e:      # `postbad` / `fdef` refuse even the materialisation of their default
                e.__traceback__ = None
        h.x = None
        h.post = None
    ex.append(("copy/clone2", new, clone_and_copy, o2))
    return ex


def install_adaptation():
    """A private manager in which Adaptable -> IFoo is offered (and nothing else)."""
    mgr = AdaptationManager()
    mgr.register_factory(FooAdapter, Adaptable, IFoo)
    old = get_global_adaptation_manager()
    set_global_adaptation_manager(mgr)
    return old
