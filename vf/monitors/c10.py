"""C10 -- defaults are per-instance, computed once, silent; instances are isolated.

Every history builds a *fresh* class family (Base / Sub / SubSub, with or
without static handlers) covering every default kind, keeps a pool of 2-6
instances created at different times, and performs one operation on ONE
instance ("A") per step.  After every step

  * every other pool instance is compared with the snapshot taken when it was
    last touched (readable values by identity and by deep value, trait objects,
    handlers, declared defaults, trait names, notifier counts, default-method
    call counters): nothing may differ (a default that merely got materialised
    with the declared value is accepted: the readable value did not change);
  * every recorder entry logged during the step must belong to A (static
    `_x_changed` / `_anytrait_changed`, `on_trait_change`, `observe`);
  * the classes are inspected (class_traits(), public namespace, declared
    defaults, notifier census) -- effects of the step;
  * a fresh instance of every class of the family is created, every trait is
    read twice: declared default (literal in the spec), silent, second read
    identical, default method / factory ran at most once, mutable defaults
    not shared with any pool instance, the previous fresh instance or the
    object stored in the class trait; half of the fresh instances get
    on_trait_change / observe recorders attached before the first read;
  * the pool and the classes are inspected again -- effects of what the fresh
    instances did (reported under the op label "fresh-instance");
  * every pool instance is asked for its metadata-filtered trait_names() /
    traits() (must be the class's names plus its own added traits), the
    classes are inspected once more ("filtered-inspection"), and now and then
    a subclass is defined on the spot: it must inherit the original names.

Default-method runs are also counted per "never assigned" period of each
(instance, name) -- from construction / del / reset_traits / remove_trait to
the next assignment -- and may not exceed one; after a reset the object the
handlers were told the value reverts to must be the object later reads return,
and every default container (at any depth) must be bound to the instance it
was read from.  Two ops take a sibling's live container: `transfer` assigns
it, `inplace` passes it as the argument of an in-place route of the target's
own container; afterwards the two instances may not hold a common mutable
object at any depth.

Objects are keyed by serial numbers (the id -> serial map only ever holds
objects the history keeps alive).  Wildcard-name resolution is kept out of the
alphabet of these histories (DESIGN C10/N): only declared names and currently
added instance traits are ever read, assigned or listened to.  Two further
strata run after them: `_c10_wild` (the isolation and default laws on names
resolved through wildcard declarations; the class-level caching itself is not
judged), `_c10_failhook` (a hook fails while a default is being
materialised: computed once / same object all the same) and `_c10_sidefx`
(the code that computes a default assigns the trait itself or its siblings,
reads other defaults, registers listeners or resets traits of the same
object: first read == later reads, computed once, silent, per instance).
See DESIGN.md section 4 / C10.
"""
import copy
import warnings

from traits.api import (HasTraits, Any, Int, Str, List, Dict, Set, Instance, Trait, Tuple, Union,
                        ComparisonMode, push_exception_handler)
from traits.observation.api import push_exception_handler as obs_push_exception_handler
from traits.observation.api import trait as obs_trait

from vf.util import short

META = {
    "level": "exploration",
    "rule": ("case = one history: a freshly built class family (Base/Sub/SubSub x with/without static "
             "handlers; 30 declared traits covering constant, Any([])/Any({}) copies, List/Dict/Set "
             "objects, Instance(X,()) / Instance(X,args,kw), Any(factory=...) with and without args, "
             "_x_default methods (list/int/dict), Tuple(List(Int),Int) and Union(List(Int),Int) dynamic "
             "defaults, Tuple/Union with legacy list/dict-copy members (Tuple(list,int), Tuple(Any([..]),Int), "
             "Tuple(dict,str), Tuple(Trait([..],list),Int), Union(Trait(dict),None), Union(Any([..]),Int)), "
             "List/Dict traits with non-empty static defaults whose items are containers (List(List(Int)), "
             "List(Dict), Dict(Str,List), List(Set)), comparison_mode none/identity variants, subclass overrides by class-body value and "
             "by _x_default), a pool of 2-6 "
             "instances of 1-3 of the classes created at different times (half of them with "
             "on_trait_change/observe recorders attached), 15 (quick) / 15-25 (thorough) steps drawn from "
             "{read, mutate own container, assign, del, on_trait_change add/remove, observe add/remove, "
             "add_trait (new name / shadowing a declared name), remove_trait, new instance, drop "
             "instance, read-all, metadata-filtered query / state / copy (traits(**md), trait_names(**md), "
             "trait_get(**md), __getstate__, copy, deepcopy, clone_traits, copyable_trait_names, "
             "editable_traits, visible_traits), transfer (assign the container value(s) read from a sibling "
             "to the same trait(s) of the target, by setattr or trait_set(**sibling.trait_get(..)))}; 40% of "
             "the families have value-based __eq__/__hash__ (distinct instances usually compare equal); "
             "in-place mutations reach containers nested in containers; del is `del o.n` or reset_traits([..]) "
             "(preferably of stored values) followed by reads; inplace = an in-place route of the target's "
             "own container (extend, +=, slice assignment, insert/append/setitem of an inner container, "
             "update, |=; through the attribute or a local variable) with the sibling's live container as "
             "argument, then an inner mutation, one evaluation per inspected sibling / fresh instance / class after "
             "every step.  distinct_nontrivial counts distinct (op, default kind of the target, value "
             "materialised before?, class of the target, static variant, recorders attached to the "
             "target, mechanisms that fired) signatures of steps.  "
             "Stratum 'wildcard' (wild_* counters, 3200 / 48000 histories of 12-20 steps): class families built "
             "on prefix declarations (field_=Int, items_=List, bag_=Dict, obj_=Instance(X,()), made_=Any(factory), "
             "a subclass overriding a prefix and adding a longer one, the universal `_ = Int(7)`, no declaration at "
             "all; with / without static _name_changed / _anytrait_changed), pool of 2-5 instances, steps {first "
             "resolution of a brand-new name by read or assignment, use of a name a sibling resolved, in-place "
             "mutation, register observe('*') / anytrait() / match(prefix) / '+tag' / metadata('tag') / "
             "match(..).trait('z') / match(..).list_items() / named wildcard and declared names / legacy anytrait, "
             "named, '+tag', 'obj_x.z'; unregister, del, add_trait under a prefix, new / drop instance, bulk "
             "queries and copies}; after every step: recorder ownership, every sibling's stored objects / "
             "trait_names() / trait objects it already saw and their notifier counts, a fresh instance of every "
             "class assigning and reading the resolved names (no pool recorder may fire), notifier census of the "
             "class-level trait of every resolved name against a control family on which nobody ever registered; "
             "first reads of wildcard names under the default laws (declared default of the governing prefix, "
             "silent but for trait_added, identical second read, factory once, not shared with the class-level "
             "trait nor any other (instance, name)).  That the resolved trait is cached in the class is not judged.  "
             "Stratum 'failhook' (failhook_* counters, ENUMERATED 306 cases, x12 with other read counts in the "
             "thorough tier): 13 default kinds x hooks that fail while the default is materialised {nested observe "
             "on a default lacking the next trait, items-then-trait, items observer of the wrong container kind, "
             "the same as class-level @observe / cached Property(observe=..), legacy 'n.value' listener with "
             "reraise on / off, post_setattr raising always / first call only, none} x period {never assigned, "
             "assigned then del, assigned then reset_traits} x sibling with / without the hook; 2-4 reads with the "
             "hook armed, sibling reads in between, reads after disarming: default method / factory at most once "
             "per period, every returning read returns one object (the declared default, the one post_setattr was "
             "given), sibling untouched.  "
             "Stratum 'sidefx' (sidefx_* counters, ENUMERATED 3429 cases, x10 with other draws in the thorough tier): "
             "the computation of the default of x has a side effect on the same object, once per never-assigned "
             "period: 10 default kinds (_x_default on List / Dict / Set / Any / Int / Instance / a trait type with "
             "post_setattr, Any(factory=..), a DefaultValue.callable default, a static List default whose item "
             "validator carries the effect) x 20 effects {none; assigns x itself (equal / other value / then returns "
             "the stored value); a fill-several-traits helper; assigns sibling y whose static / on_trait_change / "
             "observe handler assigns x; assigns siblings only; y's handler reads x; reads a sibling whose default "
             "reads a third (chain) / reads x (mutually recursive defaults); registers on_trait_change('x') / "
             "observe('x') / 'x_items' / 'x.items' / an all-traits listener; reset_traits(['x']) or del while unassigned; "
             "assigns then deletes x; assigns y then reset_traits()} x listener already on x {none, otc, observe, "
             "static, x_items, x.items, all-traits} x period {never assigned, assigned then del, assigned then "
             "reset_traits}; inner assignments by setattr / trait_set / trait_setq; a sibling instance takes the same "
             "turn (armed or not, hooked or not), a third one is read at the end: every returning read of one period "
             "yields one object (also after the sibling's turn), it is what the default computation returned, the "
             "computation ran at most once plus once per operation of the effect code that itself needs the value of "
             "the unassigned x, handlers of x are reached at most once per assignment / deletion of x made by the "
             "effect code, the object announced by the del / reset notification and the one last given to "
             "post_setattr is the one reads return, instances do not reach each other."),
    "phases": [{"name": "main", "flavour": "P", "shards": 16}],
    "gates": {
        "quick": {"evaluations": 100000, "steps": 15000, "sibling_inspections": 30000,
                  "fresh_instances": 40000, "class_inspections": 40000, "first_reads": 800000,
                  "pool_first_reads": 50000, "first_reads_static": 500000, "first_reads_otc": 400000,
                  "first_reads_observe": 400000, "later_reads": 15000, "default_method_runs": 200000,
                  "default_factory_runs": 100000, "own_mutations": 2500,
                  "handler_events_on_target": 4000, "liveness_events": 100000, "add_trait_ops": 1200,
                  "remove_trait_ops": 200, "registrations": 100000, "instances_created": 800,
                  "sharing_comparisons": 800000, "query_ops": 1200,
                  "query_ops_on_instance_with_added_traits": 220, "filtered_inspections": 40000,
                  "subclass_probes": 6000, "inner_mutations": 600, "transfer_ops": 900,
                  "transfer_ops_between_equal_instances": 170, "value_equality_histories": 400, "reset_ops": 1500,
                  "reset_ops_on_stored_value_with_notifier": 800,
                  "reset_ops_on_stored_value_without_notifier": 130, "reset_new_identity_checks": 400,
                  "inplace_sibling_ops": 1000, "inplace_sibling_ops_nested": 600,
                  "inplace_sibling_ops_local_variable": 500, "period_checks": 300000,
                  "wild_steps": 19000, "wild_sibling_inspections": 70000, "wild_fresh_instances": 30000,
                  "wild_fresh_assignments": 100000, "wild_class_inspections": 30000,
                  "wild_census_comparisons": 200000, "wild_first_reads": 55000,
                  "wild_first_resolutions": 4000, "wild_first_resolutions_on_observed_instance": 2000,
                  "wild_registrations_following_trait_added": 4000,
                  "wild_assignments_beside_listening_sibling": 3200, "wild_handler_events_on_target": 20000,
                  "wild_own_mutations": 2000, "wild_add_trait_ops": 800,
                  "failhook_cases": 150, "failhook_period_checks": 300, "failhook_first_reads_raised": 35,
                  "failhook_resets_raised": 90, "failhook_reads_returned": 1400,
                  "sidefx_cases": 1700, "sidefx_period_checks": 5000, "sidefx_reads_returned": 15000,
                  "sidefx_effects_fired": 2500, "sidefx_effects_in_first_read": 800,
                  "sidefx_effects_in_reset_or_registration": 900, "sidefx_self_assignments": 1000,
                  "sidefx_sibling_writebacks": 400, "sidefx_reentrant_reads": 250,
                  "sidefx_chained_default_reads": 130, "sidefx_listener_registrations_in_default": 550,
                  "sidefx_resets_in_default": 400, "sidefx_reset_identity_checks": 1000,
                  "sidefx_post_setattr_identity_checks": 400, "sidefx_cases_effect_with_listener_on_x": 1200},
        "thorough": {"evaluations": 2000000, "steps": 300000, "sibling_inspections": 600000,
                     "fresh_instances": 800000, "class_inspections": 800000, "first_reads": 16000000,
                     "pool_first_reads": 1000000, "first_reads_static": 10000000,
                     "first_reads_otc": 8000000, "first_reads_observe": 8000000, "later_reads": 300000,
                     "default_method_runs": 4000000, "default_factory_runs": 2000000,
                     "own_mutations": 50000, "handler_events_on_target": 80000,
                     "liveness_events": 2000000, "add_trait_ops": 24000, "remove_trait_ops": 4000,
                     "registrations": 2000000, "instances_created": 16000,
                     "sharing_comparisons": 16000000, "query_ops": 24000,
                     "query_ops_on_instance_with_added_traits": 4400, "filtered_inspections": 800000,
                     "subclass_probes": 120000, "inner_mutations": 12000, "transfer_ops": 18000,
                     "transfer_ops_between_equal_instances": 3400, "value_equality_histories": 8000, "reset_ops": 30000,
                     "reset_ops_on_stored_value_with_notifier": 16000,
                     "reset_ops_on_stored_value_without_notifier": 2600,
                     "reset_new_identity_checks": 8000, "inplace_sibling_ops": 20000,
                     "inplace_sibling_ops_nested": 12000, "inplace_sibling_ops_local_variable": 10000,
                     "period_checks": 6000000,
                     "wild_steps": 340000, "wild_sibling_inspections": 1200000, "wild_fresh_instances": 540000,
                     "wild_fresh_assignments": 1800000, "wild_class_inspections": 540000,
                     "wild_census_comparisons": 3600000, "wild_first_reads": 1000000,
                     "wild_first_resolutions": 72000, "wild_first_resolutions_on_observed_instance": 36000,
                     "wild_registrations_following_trait_added": 72000,
                     "wild_assignments_beside_listening_sibling": 57000, "wild_handler_events_on_target": 360000,
                     "wild_own_mutations": 36000, "wild_add_trait_ops": 14000,
                     "failhook_cases": 1800, "failhook_period_checks": 3600, "failhook_first_reads_raised": 420,
                     "failhook_resets_raised": 1000, "failhook_reads_returned": 17000,
                     "sidefx_cases": 17000, "sidefx_period_checks": 50000, "sidefx_reads_returned": 150000,
                     "sidefx_effects_fired": 25000, "sidefx_effects_in_first_read": 8000,
                     "sidefx_effects_in_reset_or_registration": 9000, "sidefx_self_assignments": 10000,
                     "sidefx_sibling_writebacks": 4000, "sidefx_reentrant_reads": 2500,
                     "sidefx_chained_default_reads": 1300, "sidefx_listener_registrations_in_default": 5500,
                     "sidefx_resets_in_default": 4000, "sidefx_reset_identity_checks": 10000,
                     "sidefx_post_setattr_identity_checks": 4000, "sidefx_cases_effect_with_listener_on_x": 12000},
    },
    "assumptions": [
        "the declared default of every trait of the harness classes is the literal written in SPEC "
        "(the most derived class-body value or _x_default method wins)",
        "a subclass overriding an Any([..])/Any({..})/factory/Instance default by a class-body value is "
        "out of scope: TraitType.clone documents that such a default becomes a shared constant",
        "wildcard-name resolution caches the resolved trait in the class dictionary by design: the main "
        "histories keep it out of their alphabet; the stratum 'wildcard' exercises it and judges everything "
        "but that caching (and whether trait_added fires)",
        "whether a read raises while a failing hook is attached is not judged (stratum 'failhook'): only how "
        "often the default is computed and which object returning reads yield",
        "stratum 'sidefx': an operation of the default-computing code that itself needs the value of the still "
        "unassigned trait (a re-entrant read, an assignment / deletion while the trait has listeners or a "
        "post_setattr hook) may compute the default once more; what such code leaves in the sibling traits is "
        "not judged",
    ],
}

ABSENT = ("<absent>",)
FOO_COUNT = [0]


class Foo(HasTraits):
    z = Int(4)

    def __init__(self, **kw):
        FOO_COUNT[0] += 1
        super().__init__(**kw)


def norm(v):
    """Plain, comparable structure of a value (container class ignored)."""
    t = type(v)
    if t is int or t is str:
        return v
    if isinstance(v, Foo):
        return ("Foo", v.__dict__.get("z", 4))
    if isinstance(v, list):
        return [norm(x) for x in v]
    if isinstance(v, tuple):
        return tuple([norm(x) for x in v])
    if isinstance(v, dict):
        return {k: norm(x) for k, x in v.items()}
    if isinstance(v, (set, frozenset)):
        return set(v)
    return v


def brief(x):
    try:
        return short(norm(x), 60)
    except Exception:
        return short(x, 60)


# --------------------------------------------------------------------------
# recorders
# --------------------------------------------------------------------------
class Hub:
    """All recorders of one history.  Entries are
    (mechanism, owner serial, object serial, name, old, new)."""

    def reset(self):
        self.live = {}
        self.next_serial = 0
        self.pending = None
        self.log = []
        self.dcalls = {}
        self.fac2 = 0
        self.excs = []
        self.capture = False
        self.news = []          # (mechanism, owner serial, trait name, new object) while capture is on

    def new_serial(self):
        s = self.next_serial
        self.next_serial += 1
        return s

    def bind(self, obj, serial):
        self.live[id(obj)] = serial

    def unbind(self, obj):
        self.live.pop(id(obj), None)

    def serial_of(self, obj):
        s = self.live.get(id(obj))
        if s is None:
            if self.pending is not None and isinstance(obj, HasTraits) and not isinstance(obj, Foo):
                return self.pending
            return -1
        return s

    def dcall(self, obj, name):
        key = (self.serial_of(obj), name)
        self.dcalls[key] = self.dcalls.get(key, 0) + 1

    def static(self, mech, obj, name, old, new):
        s = self.serial_of(obj)
        self.log.append((mech, s, s, name, brief(old), brief(new)))
        if self.capture:
            self.news.append((mech, s, name, new))

    def otc_handler(self, owner, regname):
        def handler(obj, name, old, new):
            self.log.append(("otc", owner, self.serial_of(obj), name, brief(old), brief(new)))
            if self.capture and self.serial_of(obj) == owner:
                self.news.append(("otc", owner, name, new))
        handler.__name__ = "otc_%s" % (regname,)
        return handler

    def obs_handler(self, owner, expr):
        def handler(event):
            self.log.append(("observe", owner, self.serial_of(getattr(event, "object", None)),
                             expr, type(event).__name__,
                             brief(getattr(event, "new", getattr(event, "added", None)))))
            if self.capture and hasattr(event, "name") and hasattr(event, "new") \
                    and self.serial_of(event.object) == owner:
                self.news.append(("observe", owner, event.name, event.new))
        return handler

    def legacy_exc(self, obj, name, old, new):
        import sys
        self.excs.append(("legacy", name, repr(sys.exc_info()[1])[:200]))

    def obs_exc(self, event):
        import sys
        self.excs.append(("observe", repr(sys.exc_info()[1])[:200]))


HUB = Hub()
HUB.reset()


def fac2_factory(a, b=0):
    HUB.fac2 += 1
    return {"a": a, "b": b}


# --------------------------------------------------------------------------
# the class family and its specification
# --------------------------------------------------------------------------
# name -> (kind, type name of the default, plain default, counter, value type for assignments)
BASE_SPEC = {
    "c":     ("constant-int", "int", 3, None, "int"),
    "st":    ("constant-str", "str", "abc", None, "str"),
    "al":    ("any-list-copy", "list", [1, 2], None, "list"),
    "ad":    ("any-dict-copy", "dict", {"k": 1}, None, "dict"),
    "l":     ("trait-list", "TraitListObject", [1, 2], None, "list"),
    "li":    ("trait-list-implicit", "TraitListObject", [], None, "list"),
    "d":     ("trait-dict", "TraitDictObject", {"a": 1}, None, "dict"),
    "s":     ("trait-set", "TraitSetObject", {1}, None, "set"),
    "inst":  ("instance-args", "Foo", ("Foo", 4), "foo", "foo"),
    "inst2": ("instance-kw", "Foo", ("Foo", 5), "foo", "foo"),
    "fac":   ("factory", "list", [], None, "list"),
    "fac2":  ("factory-args-kw", "dict", {"a": 1, "b": 2}, "fac2", "dict"),
    "dyn":   ("method-list", "TraitListObject", [7, 8], "method", "list"),
    "dc":    ("method-int", "int", 11, "method", "int"),
    "dobj":  ("method-any-dict", "dict", {"m": 1}, "method", "dict"),
    "tup":   ("tuple-dynamic", "tuple", ([], 0), None, "tup"),
    "un":    ("union-dynamic", "TraitListObject", [], None, "union"),
    # Tuple / Union whose members are of the legacy "copy of a list/dict" kinds (plain Python
    # types, Trait(list), Any([..])): the nested container is per instance on the unchanged tree
    "tl":    ("tuple-legacy-list", "tuple", ([], 0), None, "tup"),
    "ta2":   ("tuple-legacy-any-list", "tuple", ([1, 2], 3), None, "tup"),
    "td":    ("tuple-legacy-dict", "tuple", ({}, ""), None, "tupd"),
    "tt":    ("tuple-legacy-trait-list", "tuple", ([1, 2], 0), None, "tup"),
    "ud":    ("union-legacy-dict", "dict", {}, None, "dictnone"),
    "ua2":   ("union-legacy-any-list", "list", [4, 5], None, "union"),
    # non-empty static defaults whose ITEMS are containers: the item validator is what creates
    # the per-instance inner TraitListObject / TraitDictObject / TraitSetObject
    "ll":    ("trait-list-of-lists", "TraitListObject", [[1, 2], [3]], None, "listlist"),
    "ld":    ("trait-list-of-dicts", "TraitListObject", [{"a": 1}], None, "listdict"),
    "dl":    ("trait-dict-of-lists", "TraitDictObject", {"k": [1]}, None, "dictlist"),
    "ls":    ("trait-list-of-sets", "TraitListObject", [{1}], None, "listset"),
    # comparison_mode none / identity: the Uninitialized filter is the only guard of a default read
    "cmn":   ("trait-list-cmp-none", "TraitListObject", [6], None, "list"),
    "cmi":   ("constant-cmp-identity-int", "int", 6, None, "int"),
    "cmd":   ("method-cmp-none-dict", "dict", {"n": 1}, "method", "dict"),
}
SUB_SPEC = dict(BASE_SPEC)
SUB_SPEC.update({
    "c":   ("sub-body-int", "int", 9, None, "int"),
    "l":   ("sub-body-list", "TraitListObject", [5], None, "list"),
    "d":   ("sub-body-dict", "TraitDictObject", {"q": 2}, None, "dict"),
    "s":   ("sub-body-set", "TraitSetObject", {4}, None, "set"),
    "dyn": ("sub-method-override", "TraitListObject", [70], "method", "list"),
    "st":  ("sub-method-on-constant", "str", "sub", "method", "str"),
    "li":  ("sub-method-on-list", "TraitListObject", [3], "method", "list"),
})
SUBSUB_SPEC = dict(SUB_SPEC)
SUBSUB_SPEC.update({
    "c":  ("subsub-body-int", "int", 10, None, "int"),
    "dc": ("subsub-method-override", "int", 12, "method", "int"),
})
SPECS = {"Base": BASE_SPEC, "Sub": SUB_SPEC, "SubSub": SUBSUB_SPEC}
NAMES = list(BASE_SPEC)
IMMUTABLE_TYPES = ("int", "str")


def family(kind):
    """Coarse default-value family used in mechanism keys."""
    if kind.endswith("-int") or kind.endswith("-str"):
        return "method" if "method" in kind else "constant"
    if "method" in kind:
        return "method"
    if kind.startswith("any-"):
        return "copy"
    if kind.startswith(("instance", "factory", "extra-factory")):
        return "callable-and-args"
    if kind.startswith(("tuple", "union")):
        return "dynamic-compound"
    return "container-object"


EXTRA_PROBE = ("extra0", "extra1", "extra1_items", "extra2")
EVENT_NAMES = ("trait_added", "trait_modified")


def extra_def(name, k):
    """(trait, spec) of an instance trait added under `name`."""
    if name == "extra0":
        return Int(50 + k), ("extra-int", "int", 50 + k, None, "int")
    if name == "extra1":
        return List(Int, [k]), ("extra-list", "TraitListObject", [k], None, "list")
    if name == "extra2":
        return Any(factory=dict), ("extra-factory", "dict", {}, None, "dict")
    if name == "c":
        return Int(70 + k), ("shadow-int", "int", 70 + k, None, "int")
    if name == "l":
        return List(Int, [60 + k]), ("shadow-list", "TraitListObject", [60 + k], None, "list")
    if name == "dyn":
        return List(Int, [40 + k]), ("shadow-dynlist", "TraitListObject", [40 + k], None, "list")
    raise AssertionError(name)


ADDABLE = ("extra0", "extra1", "extra2", "extra0", "extra1", "c", "l", "dyn")


def build(static, valeq=False):
    """A fresh class family; handlers and default methods report to HUB.
    valeq: the classes have value semantics (`__eq__` / `__hash__` over the stored
    values of `c` and `st`), so two distinct instances usually compare equal."""
    hub = HUB
    with warnings.catch_warnings():
        warnings.simplefilter("ignore")

        class Base(HasTraits):
            c = Int(3)
            st = Str("abc")
            al = Any([1, 2])
            ad = Any({"k": 1})
            l = List(Int, [1, 2])          # noqa: E741
            li = List(Int)
            d = Dict(Str, Int, {"a": 1})
            s = Set(Int, {1})
            inst = Instance(Foo, ())
            inst2 = Instance(Foo, args=(), kw={"z": 5})
            fac = Any(factory=list)
            fac2 = Any(factory=fac2_factory, args=(1,), kw={"b": 2})
            dyn = List(Int)
            dc = Int
            dobj = Any
            tup = Tuple(List(Int), Int)
            un = Union(List(Int), Int)
            tl = Tuple(list, int)
            ta2 = Tuple(Any([1, 2]), Int(3))
            td = Tuple(dict, str)
            tt = Tuple(Trait([1, 2], list), Int)
            ud = Union(Trait(dict), None)
            ua2 = Union(Any([4, 5]), Int)
            ll = List(List(Int), [[1, 2], [3]])
            ld = List(Dict(Str, Int), [{"a": 1}])
            dl = Dict(Str, List(Int), {"k": [1]})
            ls = List(Set(Int), [{1}])
            cmn = List(Int, [6], comparison_mode=ComparisonMode.none)
            cmi = Int(6, comparison_mode=ComparisonMode.identity)
            cmd = Any(comparison_mode=ComparisonMode.none)

            def _cmd_default(self):
                hub.dcall(self, "cmd")
                return {"n": 1}

            def _dyn_default(self):
                hub.dcall(self, "dyn")
                return [7, 8]

            def _dc_default(self):
                hub.dcall(self, "dc")
                return 11

            def _dobj_default(self):
                hub.dcall(self, "dobj")
                return {"m": 1}

            if valeq:
                def __eq__(self, other):
                    if type(self) is not type(other):
                        return NotImplemented
                    a, b = self.__dict__, other.__dict__
                    return a.get("c", ABSENT) == b.get("c", ABSENT) and a.get("st", ABSENT) == b.get("st", ABSENT)

                def __ne__(self, other):
                    r = self.__eq__(other)
                    return r if r is NotImplemented else not r

                def __hash__(self):
                    return hash(type(self).__name__)

            if static:
                def _anytrait_changed(self, name, old, new):
                    hub.static("static-any", self, name, old, new)

                def _c_changed(self, old, new):
                    hub.static("static", self, "c", old, new)

                def _l_changed(self, old, new):
                    hub.static("static", self, "l", old, new)

                def _l_items_changed(self, event):
                    hub.static("static", self, "l_items", None, getattr(event, "added", None))

                def _dyn_changed(self, name, old, new):
                    hub.static("static", self, "dyn", old, new)

                def _inst_changed(self, new):
                    hub.static("static", self, "inst", None, new)

                def _cmn_changed(self, old, new):
                    hub.static("static", self, "cmn", old, new)

                def _ad_changed(self):
                    hub.static("static", self, "ad", None, None)

        class Sub(Base):
            c = 9
            l = [5]                         # noqa: E741
            d = {"q": 2}
            s = {4}

            def _dyn_default(self):
                hub.dcall(self, "dyn")
                return [70]

            def _st_default(self):
                hub.dcall(self, "st")
                return "sub"

            def _li_default(self):
                hub.dcall(self, "li")
                return [3]

        class SubSub(Sub):
            c = 10

            def _dc_default(self):
                hub.dcall(self, "dc")
                return 12

    return {"Base": Base, "Sub": Sub, "SubSub": SubSub}


# --------------------------------------------------------------------------
# model helpers
# --------------------------------------------------------------------------
def gen_value(rng, vtype):
    def ints(n):
        return [rng.randrange(10) for _ in range(rng.randrange(n))]
    if vtype == "int":
        return rng.randrange(-5, 60)
    if vtype == "str":
        return rng.choice(["", "a", "abc", "xyz", "sub", "q"])
    if vtype == "list":
        return ints(4)
    if vtype == "dict":
        return {"k%d" % rng.randrange(4): rng.randrange(10) for _ in range(rng.randrange(3))}
    if vtype == "set":
        return set(ints(4))
    if vtype == "foo":
        return Foo(z=rng.randrange(100))
    if vtype == "tup":
        return (ints(3), rng.randrange(10))
    if vtype == "listlist":
        return [ints(3) for _ in range(rng.randrange(3))]
    if vtype == "listdict":
        return [{"k%d" % rng.randrange(4): rng.randrange(10)} for _ in range(rng.randrange(3))]
    if vtype == "listset":
        return [set(ints(3)) for _ in range(rng.randrange(3))]
    if vtype == "dictlist":
        return {"k%d" % rng.randrange(3): ints(3) for _ in range(rng.randrange(3))}
    if vtype == "tupd":
        return ({"k%d" % rng.randrange(4): rng.randrange(10) for _ in range(rng.randrange(3))},
                rng.choice(["", "a", "xyz"]))
    if vtype == "dictnone":
        if rng.random() < 0.25:
            return None
        return {"k%d" % rng.randrange(4): rng.randrange(10) for _ in range(rng.randrange(3))}
    if vtype == "union":
        return rng.randrange(10) if rng.random() < 0.4 else ints(3)
    raise AssertionError(vtype)


NESTED = {"listlist": list, "listdict": dict, "listset": set}


def pick_mutation(rng, cur, vt=None):
    if vt in NESTED and isinstance(cur, list):
        # a list of containers: mutate an INNER container in place, or grow / shrink the list
        x = rng.random()
        if cur and x < 0.65:
            i = rng.randrange(len(cur))
            return ("inner", i, pick_mutation(rng, cur[i]))
        if cur and x < 0.8:
            return ("pop",)
        k = rng.randrange(100, 200)
        return ("appendv", [k] if vt == "listlist" else {"z": k} if vt == "listdict" else {k})
    if vt == "dictlist" and isinstance(cur, dict):
        if cur and rng.random() < 0.7:
            key = sorted(cur)[rng.randrange(len(cur))]
            return ("inner", key, pick_mutation(rng, cur[key]))
        return ("dsetv", "k%d" % rng.randrange(3), [rng.randrange(100, 200)])
    if isinstance(cur, list):
        c = rng.randrange(4)
        if c <= 1 or not cur:
            return ("append", rng.randrange(100, 200))
        if c == 2:
            return ("setitem0", rng.randrange(100, 200))
        return ("pop",)
    if isinstance(cur, dict):
        return ("dset", "k%d" % rng.randrange(4), rng.randrange(100, 200))
    if isinstance(cur, set):
        return ("sadd", rng.randrange(100, 200))
    if isinstance(cur, tuple) and cur and isinstance(cur[0], list):
        return ("t0append", rng.randrange(100, 200))
    if isinstance(cur, tuple) and cur and isinstance(cur[0], dict):
        return ("t0dset", "k%d" % rng.randrange(4), rng.randrange(100, 200))
    if isinstance(cur, Foo):
        return ("fooz", rng.randrange(100, 200))
    return None


def apply_real(v, m):
    k = m[0]
    if k == "append":
        v.append(m[1])
    elif k == "setitem0":
        v[0] = m[1]
    elif k == "pop":
        v.pop()
    elif k == "dset":
        v[m[1]] = m[2]
    elif k == "sadd":
        v.add(m[1])
    elif k == "t0append":
        v[0].append(m[1])
    elif k == "t0dset":
        v[0][m[1]] = m[2]
    elif k == "fooz":
        v.z = m[1]
    elif k == "inner":
        apply_real(v[m[1]], m[2])
    elif k == "appendv":
        v.append(copy.deepcopy(m[1]))
    elif k == "dsetv":
        v[m[1]] = copy.deepcopy(m[2])
    else:
        raise AssertionError(m)


def apply_model(p, m):
    k = m[0]
    if k == "append":
        return p + [m[1]]
    if k == "setitem0":
        return [m[1]] + p[1:]
    if k == "pop":
        return p[:-1]
    if k == "dset":
        q = dict(p)
        q[m[1]] = m[2]
        return q
    if k == "sadd":
        return set(p) | {m[1]}
    if k == "t0append":
        return (p[0] + [m[1]],) + tuple(p[1:])
    if k == "t0dset":
        q = dict(p[0])
        q[m[1]] = m[2]
        return (q,) + tuple(p[1:])
    if k == "fooz":
        return ("Foo", m[1])
    if k == "inner":
        q = list(p) if isinstance(p, list) else dict(p)
        q[m[1]] = apply_model(q[m[1]], m[2])
        return q
    if k == "appendv":
        return p + [copy.deepcopy(m[1])]
    if k == "dsetv":
        q = dict(p)
        q[m[1]] = copy.deepcopy(m[2])
        return q
    raise AssertionError(m)


def dvnorm(ct):
    """Declared default of a CTrait as a comparable value."""
    dv = ct.default_value()
    return (int(dv[0]), norm(dv[1]))


def ncount(ct):
    try:
        return len(ct._notifiers(False) or ())
    except Exception:
        return None


def mutable_parts(v, out=None):
    """Every mutable object of a value (the value itself and, recursively, the
    containers nested in it) whose identity must not be shared."""
    if out is None:
        out = []
    if v is None or isinstance(v, (int, str)):
        return out
    if isinstance(v, tuple):
        for x in v:
            mutable_parts(x, out)
    elif isinstance(v, list):
        out.append(v)
        for x in v:
            mutable_parts(x, out)
    elif isinstance(v, dict):
        out.append(v)
        for x in v.values():
            mutable_parts(x, out)
    else:
        out.append(v)
    return out


def _is_none(v):
    return v is None


# Metadata-filtered queries and the copy / state operations built on them.  All are
# reads: none may change what the class or another instance reports.
FILTER = {"type": "trait"}
QUERIES = {
    "traits-filtered": lambda o: o.traits(**FILTER),
    "trait_names-filtered": lambda o: o.trait_names(transient=_is_none),
    "trait_get-filtered": lambda o: o.trait_get(**FILTER),
    "getstate": lambda o: o.__getstate__(),
    "copy": lambda o: copy.copy(o),
    "deepcopy": lambda o: copy.deepcopy(o),
    "clone_traits": lambda o: o.clone_traits(),
    "copyable_trait_names": lambda o: o.copyable_trait_names(),
    "editable_traits": lambda o: o.editable_traits(),
    "visible_traits": lambda o: o.visible_traits(),
}
QUERY_NAMES = sorted(QUERIES)

INPLACE_FLAT = ("l", "li", "dyn", "cmn", "d", "s")
INPLACE_NESTED = ("ll", "ld", "ls", "dl")


def inplace_routes(T, X, vt):
    """In-place routes of container T that take container X (or a member of it) as argument."""
    if isinstance(T, list):
        routes = [("extend",), ("iadd",), ("slice-front",), ("slice-end",)]
        if vt in NESTED and len(X):
            routes += [("insert-inner",), ("append-inner",)] * 2
            if len(T):
                routes += [("setitem-inner",)] * 2
        return routes
    if isinstance(T, dict):
        routes = [("update",), ("ior",)] * 2
        if len(X):
            routes.append(("setitem-inner",))
        return routes
    return [("update",), ("ior",)]


def apply_route(o, n, ref, X, route, rng, p, src):
    """Apply the route for real and return the model value after it.  ref: the container held in
    a local variable, or None to go through the attribute each time.  p / src: plain models of the
    target / the argument."""
    k = route[0]
    T = ref if ref is not None else getattr(o, n)
    if k == "extend":
        T.extend(X)
        return p + src
    if k == "iadd":
        if ref is not None:
            ref += X
        else:
            v = getattr(o, n)
            v += X
            setattr(o, n, v)            # what `o.n += X` does
        return p + src
    if k == "slice-front":
        T[0:0] = X
        return src + p
    if k == "slice-end":
        T[len(T):] = X
        return p + src
    if k == "insert-inner":
        i = rng.randrange(len(X))
        T.insert(0, X[i])
        return [src[i]] + p
    if k == "append-inner":
        i = rng.randrange(len(X))
        T.append(X[i])
        return p + [src[i]]
    if k == "setitem-inner":
        if isinstance(T, list):
            i = rng.randrange(len(X))
            T[0] = X[i]
            return [src[i]] + p[1:]
        key = sorted(X)[rng.randrange(len(X))]
        T[key] = X[key]
        q = dict(p)
        q[key] = src[key]
        return q
    if k == "update":
        T.update(X)
    elif k == "ior":
        if ref is not None:
            ref |= X
        else:
            v = getattr(o, n)
            v |= X
            setattr(o, n, v)            # what `o.n |= X` does
    else:
        raise AssertionError(route)
    if isinstance(p, dict):
        q = dict(p)
        q.update(src)
        return q
    return set(p) | set(src)


# traits that copy an assigned container into a container of the receiving instance
TRANSFER_NAMES = ("l", "li", "d", "s", "dyn", "cmn", "ll", "ld", "dl", "ls", "un", "tup")


class Rec:
    __slots__ = ("serial", "obj", "cname", "cspec", "dflt", "model", "extras", "regs", "snap", "base")

    def names(self):
        return NAMES + [n for n in self.extras if n not in BASE_SPEC]


class Snap:
    __slots__ = ("vals", "traits", "handlers", "dv", "tn", "ncounts", "onot", "dcalls")


class Violation(Exception):
    pass


class History:
    def __init__(self, ctx, hid, rng):
        self.ctx = ctx
        self.hid = hid
        self.rng = rng
        self.trace = []
        self.pool = []
        self.op = "setup"
        self.prev_fresh = {}
        self.ctraits = {}
        self.tnames = {}
        self.tnames_f = {}
        self.ctn0 = {}
        self.class_traits0 = {}
        self.vars0 = {}
        self.cdv0 = {}
        self.census0 = {}
        self.ckeys0 = {}

    # -- reporting -----------------------------------------------------------
    def fail(self, key, msg, **extra):
        w = {"history": self.hid, "static": self.static, "value_equality": getattr(self, "valeq", None),
             "classes": list(self.use),
             "trace": self.trace[-40:], "log": HUB.log[:8],
             "pool": [(r.serial, r.cname, sorted(r.extras)) for r in self.pool]}
        w.update(extra)
        self.ctx.violation(key, "%s | after %s | trace tail %r" % (msg, self.op, self.trace[-4:]), w)
        raise Violation(key)

    # -- instances -----------------------------------------------------------
    def construct(self, cname, kwargs=None):
        serial = HUB.new_serial()
        HUB.pending = serial
        try:
            obj = self.classes[cname](**(kwargs or {}))
        finally:
            HUB.pending = None
        HUB.bind(obj, serial)
        return serial, obj

    def new_rec(self, cname, kwargs=None, attach=False, readonly=False):
        rng = self.rng
        vals = {}
        for n, vt in (kwargs or {}).items():
            vals[n] = gen_value(rng, vt)
        plain = {n: norm(v) for n, v in vals.items()}
        serial, obj = self.construct(cname, vals)
        r = Rec()
        r.serial, r.obj, r.cname = serial, obj, cname
        r.cspec = SPECS[cname]
        r.dflt = dict(r.cspec)
        if readonly:            # a fresh instance: its model is only ever compared
            r.model = {n: r.cspec[n][2] for n in NAMES}
        else:
            r.model = {n: copy.deepcopy(r.cspec[n][2]) for n in NAMES}
        r.model.update(plain)
        # default-method run count at the start of the current unassigned period of each name
        r.base = {n: HUB.dcalls.get((serial, n), 0) for n in plain}
        r.extras = {}
        r.regs = []
        if attach:
            self.attach_recorders(r, rng)
        r.snap = None
        return r

    OTC_NAMES = ("c", "st", "al", "l", "l_items", "li", "d", "d_items", "s", "s_items", "inst",
                 "dyn", "dyn_items", "dc", "tup", "un", "fac", "dobj", None, None, "inst.z", "l[]",
                 "cmn", "cmi", "cmd", "cmn_items", "tl", "td", "ud", "ua2")
    OBS_EXPRS = ("c", "st", "al", "l", "l.items", "l:items", "li.items", "d.items", "s.items",
                 "inst", "inst.z", "inst:z", "dyn", "dyn.items", "dc", "tup", "un", "fac", "dobj",
                 "ad", "fac2", "cmn", "cmn.items", "cmi", "cmd", "tl", "ta2", "tt", "ud", "ua2",
                 # optional named traits: hooked when (and where) the instance trait is added
                 "extra0?", "extra1?", "extra1?.items", "extra2?")

    def reg_otc(self, r, name):
        h = HUB.otc_handler(r.serial, name)
        if name is None:
            r.obj.on_trait_change(h)
        else:
            r.obj.on_trait_change(h, name)
        r.regs.append(("otc", name, h))
        self.ctx.count("registrations")

    @staticmethod
    def obs_expr(expr):
        """'name?' / 'name?.items' are spelled with expression objects
        (optional named trait; the text mini-language has no such form)."""
        if "?" not in expr:
            return expr
        name, _, rest = expr.partition("?")
        e = obs_trait(name, optional=True)
        if rest == ".items":
            e = e.list_items(optional=True)
        return e

    def reg_obs(self, r, expr):
        h = HUB.obs_handler(r.serial, expr)
        r.obj.observe(h, self.obs_expr(expr))
        r.regs.append(("observe", expr, h))
        self.ctx.count("registrations")

    def attach_recorders(self, r, rng):
        for name in rng.sample(self.OTC_NAMES, rng.randint(1, 5)):
            try:
                self.reg_otc(r, name)
            except Exception as e:
                self.fail("op-raised/on_trait_change/%s" % type(e).__name__,
                          "#%d.on_trait_change(h, %r) on an untouched instance raised %r" % (r.serial, name, e))
        for expr in rng.sample(self.OBS_EXPRS, rng.randint(1, 5)):
            try:
                self.reg_obs(r, expr)
            except Exception as e:
                self.fail("op-raised/observe/%s" % type(e).__name__,
                          "#%d.observe(h, %r) on an untouched instance raised %r" % (r.serial, expr, e))

    # -- snapshots -------------------------------------------------------------
    def take_snap(self, r):
        o = r.obj
        d = o.__dict__
        s = Snap()
        names = r.names()
        s.vals = {n: d.get(n, ABSENT) for n in names}
        s.traits = {}
        s.handlers = {}
        s.dv = {}
        s.ncounts = {}
        for n in names:
            t = o.trait(n)
            s.traits[n] = t
            s.handlers[n] = t.handler
            s.dv[n] = dvnorm(t)
            s.ncounts[n] = ncount(t)
        for n in EXTRA_PROBE:
            if n not in s.traits:
                s.traits[n] = o.trait(n)
        for n in EVENT_NAMES:
            t = o.trait(n)
            s.traits[n] = t
            s.ncounts[n] = ncount(t)
        s.tn = sorted(o.trait_names())
        try:
            s.onot = len(o._notifiers(False) or ())
        except Exception:
            s.onot = None
        s.dcalls = {k: v for k, v in HUB.dcalls.items() if k[0] == r.serial}
        return s

    def inspect_other(self, r):
        """r was not the target of the step: nothing observable may differ."""
        ctx = self.ctx
        o = r.obj
        d = o.__dict__
        s = r.snap
        op = self.op
        for n in r.names():
            kind = r.dflt[n][0]
            cur = d.get(n, ABSENT)
            if cur is not s.vals[n] and s.vals[n] is ABSENT and norm(cur) == r.model[n] \
                    and type(cur).__name__ == r.dflt[n][1]:
                # the sibling's default was materialised by the step: its readable value
                # (the declared default) did not change, which is all the statement asks
                ctx.count("sibling_default_materialised")
                s.vals[n] = cur
                k = (r.serial, n)
                if HUB.dcalls.get(k, 0) - s.dcalls.get(k, 0) == 1:
                    s.dcalls[k] = HUB.dcalls[k]
            elif cur is not s.vals[n]:
                what = ("default-materialised-wrong" if s.vals[n] is ABSENT else
                        "value-removed" if cur is ABSENT else "value-replaced")
                self.fail("isolation/%s/%s/%s" % (what, op, family(kind)),
                          "instance #%d.%s: stored value %s (was %s, now %s)"
                          % (r.serial, n, what, brief(s.vals[n]), brief(cur)), sibling=r.serial, name=n)
            if cur is not ABSENT and norm(cur) != r.model[n]:
                self.fail("isolation/value-changed/%s/%s" % (op, family(kind)),
                          "instance #%d.%s is %s, expected %s" % (r.serial, n, brief(cur), short(r.model[n], 60)),
                          sibling=r.serial, name=n)
            t = o.trait(n)
            if t is not s.traits[n]:
                self.fail("isolation/trait-object-changed/%s" % op,
                          "instance #%d: trait(%r) is another object" % (r.serial, n), sibling=r.serial, name=n)
            if t.handler is not s.handlers[n]:
                self.fail("isolation/trait-handler-changed/%s" % op,
                          "instance #%d: trait(%r).handler is another object" % (r.serial, n), name=n)
            if dvnorm(t) != s.dv[n]:
                self.fail("isolation/declared-default-changed/%s/%s" % (op, family(kind)),
                          "instance #%d: trait(%r).default_value() is %s, was %s"
                          % (r.serial, n, short(dvnorm(t), 80), short(s.dv[n], 80)), name=n)
            if ncount(t) != s.ncounts[n]:
                self.fail("isolation/notifier-count-changed/%s" % op,
                          "instance #%d: trait(%r) has %r notifiers, had %r"
                          % (r.serial, n, ncount(t), s.ncounts[n]), name=n)
        for n in EVENT_NAMES:
            t = o.trait(n)
            if t is not s.traits[n]:
                self.fail("isolation/trait-object-changed/%s" % op,
                          "instance #%d: trait(%r) is another object" % (r.serial, n), sibling=r.serial, name=n)
            if ncount(t) != s.ncounts[n]:
                self.fail("isolation/notifier-count-changed/%s" % op,
                          "instance #%d: trait(%r) has %r notifiers, had %r"
                          % (r.serial, n, ncount(t), s.ncounts[n]), name=n)
        for n in EXTRA_PROBE:
            if n not in r.extras and not (n.endswith("_items") and n[:-6] in r.extras):
                if o.trait(n) is not None:
                    self.fail("isolation/instance-trait-leaked/%s" % op,
                              "instance #%d sees a trait %r it never added" % (r.serial, n), name=n)
        tn = sorted(o.trait_names())
        if tn != s.tn:
            self.fail("isolation/trait-names-changed/%s" % op,
                      "instance #%d: trait_names() changed by %r"
                      % (r.serial, sorted(set(tn) ^ set(s.tn))))
        try:
            onot = len(o._notifiers(False) or ())
        except Exception:
            onot = None
        if onot != s.onot:
            self.fail("isolation/notifier-count-changed/%s" % op,
                      "instance #%d: object notifiers %r, had %r" % (r.serial, onot, s.onot))
        dc = {k: v for k, v in HUB.dcalls.items() if k[0] == r.serial}
        if dc != s.dcalls:
            self.fail("isolation/default-method-ran/%s" % op,
                      "instance #%d: default method counters %r, were %r" % (r.serial, dc, s.dcalls))
        ctx.ev()
        ctx.count("sibling_inspections")

    def new_period(self, r, n):
        """The unassigned period of r.n ends / a new one starts now (assign, del, reset,
        add_trait, remove_trait): default-method runs are counted from here."""
        r.base[n] = HUB.dcalls.get((r.serial, n), 0)

    def check_period(self, r, n):
        runs = HUB.dcalls.get((r.serial, n), 0) - r.base.get(n, 0)
        if runs > 1:
            self.fail("default-method/ran-more-than-once-per-unassigned-period",
                      "_%s_default of #%d ran %d times since the value was last assigned / reset"
                      % (n, r.serial, runs), name=n)
        self.ctx.count("period_checks")

    def inspect_own(self, r):
        for n, spec in r.dflt.items():
            if spec[3] == "method":
                self.check_period(r, n)
        d = r.obj.__dict__
        for n in r.names():
            cur = d.get(n, ABSENT)
            if cur is not ABSENT and norm(cur) != r.model[n]:
                self.fail("own-state/%s/%s" % (self.op, family(r.dflt[n][0])),
                          "target #%d.%s is %s, the model says %s"
                          % (r.serial, n, brief(cur), short(r.model[n], 60)), name=n)
        r.snap = self.take_snap(r)

    # -- first / later read ------------------------------------------------------
    def checked_read(self, r, n, where):
        """getattr(r.obj, n) under the default-read laws.  Returns the value."""
        ctx = self.ctx
        o = r.obj
        kind, tname, _plain, counter, _vt = r.dflt[n]
        stored = o.__dict__.get(n, ABSENT)
        key = (r.serial, n)
        d0 = HUB.dcalls.get(key, 0)
        f0, g0 = HUB.fac2, FOO_COUNT[0]
        nlog = len(HUB.log)
        try:
            v = getattr(o, n)
        except Exception as e:
            self.fail("default-read/raised/%s/%s" % (kind, type(e).__name__),
                      "reading #%d.%s raised %r" % (r.serial, n, e), name=n)
        if len(HUB.log) != nlog:
            e = HUB.log[nlog]
            self.fail("default-read/not-silent/%s" % e[0],
                      "reading #%d.%s (%s) reached a handler: %r"
                      % (r.serial, n, "stored" if stored is not ABSENT else "default", e), name=n)
        dd = HUB.dcalls.get(key, 0) - d0
        if stored is not ABSENT:
            if v is not stored:
                self.fail("later-read/not-identical/%s" % family(kind),
                          "#%d.%s: read returned %s, stored object is %s"
                          % (r.serial, n, brief(v), brief(stored)), name=n)
            if dd or HUB.fac2 != f0 or FOO_COUNT[0] != g0:
                self.fail("later-read/default-recomputed/%s" % family(kind),
                          "#%d.%s: default method/factory ran on a later read" % (r.serial, n), name=n)
            ctx.count("later_reads")
            self._first_read = False
            return v
        # first read of this epoch
        if type(v).__name__ != tname or norm(v) != r.model[n]:
            self.fail("default-read/wrong-default/%s" % kind,
                      "#%d.%s (%s): first read returned %s %s, declared default is %s %s"
                      % (r.serial, n, r.cname, type(v).__name__, brief(v), tname, short(r.model[n], 60)),
                      name=n)
        # "computed once": never more than one run per first read (a run count of
        # zero is not judged here -- laziness is not part of the statement; a
        # memoised result is caught by the sharing checks)
        want = 1 if counter == "method" else 0
        if dd > want:
            self.fail("default-method/ran-more-than-once",
                      "#%d.%s: _%s_default ran %d times for one first read" % (r.serial, n, n, dd), name=n)
        if want:
            self.check_period(r, n)
        # the default containers (at any depth) belong to this instance
        for part in mutable_parts(v):
            ref = getattr(part, "__dict__", None)
            ref = ref.get("object") if isinstance(ref, dict) and isinstance(part, (list, dict, set)) else None
            owner = ref() if callable(ref) else None
            if owner is not None and owner is not o:
                self.fail("default-read/container-owned-by-another-instance/%s" % family(kind),
                          "#%d.%s: a %s of the default is bound to instance #%d"
                          % (r.serial, n, type(part).__name__, HUB.serial_of(owner)), name=n)
        df, dg = HUB.fac2 - f0, FOO_COUNT[0] - g0
        if df > (1 if counter == "fac2" else 0) or dg > (1 if counter == "foo" else 0):
            self.fail("default-factory/ran-more-than-once/%s" % family(kind),
                      "#%d.%s: factory ran %d times, Foo() created %d times for one first read"
                      % (r.serial, n, df, dg), name=n)
        v2 = getattr(o, n)
        if v2 is not v:
            self.fail("later-read/not-identical/%s" % family(kind),
                      "#%d.%s: second read returned another object (%s then %s)"
                      % (r.serial, n, brief(v), brief(v2)), name=n)
        if HUB.dcalls.get(key, 0) - d0 != dd or HUB.fac2 - f0 != df or FOO_COUNT[0] - g0 != dg:
            self.fail("later-read/default-recomputed/%s" % family(kind),
                      "#%d.%s: default method/factory ran again on the second read" % (r.serial, n), name=n)
        if len(HUB.log) != nlog:
            self.fail("later-read/not-silent/%s" % HUB.log[nlog][0],
                      "second read of #%d.%s reached a handler: %r" % (r.serial, n, HUB.log[nlog]), name=n)
        self._first_read = True
        ctx.count("first_reads")
        if where != "fresh":
            ctx.count("pool_first_reads")
            ctx.count("pool_first_reads/" + kind.split("-")[0])
        if dd:
            ctx.count("default_method_runs")
        if df or dg:
            ctx.count("default_factory_runs")
        if self.static:
            ctx.count("first_reads_static")
        mechs = set(x[0] for x in r.regs)
        if "otc" in mechs:
            ctx.count("first_reads_otc")
        if "observe" in mechs:
            ctx.count("first_reads_observe")
        return v

    # -- fresh instance ------------------------------------------------------------
    def fresh_check(self, cname, baseline=False):
        ctx = self.ctx
        rng = self.rng
        step_op = self.op
        del HUB.log[:]
        r = self.new_rec(cname, readonly=True)
        where = "fresh"
        try:
            if HUB.log:
                self.fail("fresh/construction-reached-handler",
                          "constructing %s() reached a handler: %r" % (cname, HUB.log[:2]))
            o = r.obj
            if baseline:
                self.ctraits[cname] = {n: o.trait(n) for n in NAMES + list(EVENT_NAMES)}
                self.tnames[cname] = sorted(o.trait_names())
                self.tnames_f[cname] = sorted(o.trait_names(**FILTER))
            else:
                for n in NAMES + list(EVENT_NAMES):
                    if o.trait(n) is not self.ctraits[cname][n]:
                        self.fail("fresh/trait-object-changed/%s" % self.op,
                                  "a fresh %s() has another trait object for %r" % (cname, n), name=n)
                tn = sorted(o.trait_names())
                if tn != self.tnames[cname]:
                    self.fail("fresh/trait-names-changed/%s" % self.op,
                              "a fresh %s() has trait_names() differing by %r"
                              % (cname, sorted(set(tn) ^ set(self.tnames[cname]))))
                tnf = sorted(o.trait_names(**FILTER))
                if tnf != self.tnames_f[cname] or sorted(o.traits(**FILTER)) != self.tnames_f[cname]:
                    self.fail("fresh/trait-names-changed/%s" % self.op,
                              "a fresh %s() has trait_names(type='trait') differing by %r"
                              % (cname, sorted(set(tnf) ^ set(self.tnames_f[cname]))))
                for n in EXTRA_PROBE:
                    if o.trait(n) is not None:
                        self.fail("fresh/instance-trait-leaked/%s" % self.op,
                                  "a fresh %s() sees instance trait %r" % (cname, n), name=n)
            # from here on the fresh instance itself is the actor
            self.op = "fresh-instance"
            attach = (not baseline) and rng.random() < 0.5
            if attach:
                self.attach_recorders(r, rng)
                if HUB.log:
                    self.fail("fresh/registration-not-silent/%s" % HUB.log[0][0],
                              "registering handlers on a fresh %s() fired %r" % (cname, HUB.log[0]))
            order = list(NAMES)
            rng.shuffle(order)
            got = {}
            stored_before = set()       # read through the "already stored" path: default not yet judged
            for n in order:
                got[n] = self.checked_read(r, n, where)
                if not self._first_read:
                    stored_before.add(n)
            # sharing: with the pool, the previous fresh instance, the class trait
            prev = self.prev_fresh.get(cname, {})
            for n in NAMES:
                kind, tname, plain = r.cspec[n][:3]
                if n in stored_before and (type(got[n]).__name__ != tname or norm(got[n]) != plain):
                    self.fail("default-read/wrong-default/%s" % kind,
                              "fresh %s().%s is %s %s, declared default is %s %s"
                              % (cname, n, type(got[n]).__name__, brief(got[n]), tname, short(plain, 60)),
                              name=n)
                if tname in IMMUTABLE_TYPES:
                    continue
                parts = mutable_parts(got[n])
                stored_default = self.ctraits[cname][n].default_value()[1]
                stored_parts = [stored_default]
                if not (isinstance(stored_default, tuple) and stored_default and callable(stored_default[0])):
                    # the members of the stored default too (not of a (callable, args, kw) triple)
                    stored_parts += mutable_parts(stored_default)
                if not parts:
                    continue
                mine = set(map(id, parts))          # all of these objects are alive right now
                if any(id(q) in mine for q in stored_parts):
                    self.fail("shared-default/with-class-trait/%s" % family(kind),
                              "fresh %s().%s IS the object stored in the class trait" % (cname, n), name=n)
                if n in prev:
                    theirs = mutable_parts(prev[n])
                    ctx.count("sharing_comparisons", len(theirs) * len(parts))
                    if any(id(q) in mine for q in theirs):
                        self.fail("shared-default/between-instances/%s" % family(kind),
                                  "two fresh %s() instances share the default object of %r" % (cname, n),
                                  name=n)
                for other in self.pool:
                    ov = other.obj.__dict__.get(n, ABSENT)
                    if ov is ABSENT:
                        continue
                    theirs = mutable_parts(ov)
                    ctx.count("sharing_comparisons", len(theirs) * len(parts))
                    if any(id(q) in mine for q in theirs):
                        self.fail("shared-default/between-instances/%s" % family(kind),
                                  "fresh %s().%s is the same object as #%d.%s"
                                  % (cname, n, other.serial, n), name=n, sibling=other.serial)
            self.prev_fresh[cname] = got
            if attach:
                # liveness of the recorders (evidence only) and ownership of what fires
                del HUB.log[:]
                o.c = 1234
                o.l = [9, 9]
                o.l.append(1)
                ctx.count("liveness_events", len(HUB.log))
                for e in HUB.log:
                    if e[1] != r.serial:
                        self.fail("isolation/foreign-handler-fired/fresh-assign/%s" % e[0],
                                  "assigning on a fresh instance #%d reached %r" % (r.serial, e))
            ctx.ev()
            ctx.count("fresh_instances")
        finally:
            HUB.unbind(r.obj)
        del HUB.log[:]
        self.op = step_op

    def after_step(self):
        """Classes (effects of the step), fresh instances, then siblings and
        classes again (effects of what the fresh instances did)."""
        step_op = self.op
        for cname in self.family:
            self.class_check(cname)
        for cname in self.family:
            self.fresh_check(cname)
        self.op = "fresh-instance"
        for r in self.pool:
            self.inspect_other(r)
        for cname in self.family:
            self.class_check(cname, light=True)
        # metadata-filtered views of every pool instance: the class's names plus the
        # instance's own added traits, whatever any other instance did or asked
        self.op = "filtered-inspection"
        for r in self.pool:
            want = sorted(set(self.tnames_f[r.cname]) | set(n for n in r.extras if n not in BASE_SPEC)) \
                if r.cname in self.tnames_f else None
            got = sorted(r.obj.trait_names(**FILTER))
            got2 = sorted(r.obj.traits(**FILTER))
            if want is None:
                continue
            if got != want or got2 != want:
                self.fail("isolation/trait-names-changed/filtered-inspection",
                          "instance #%d: trait_names(type='trait') differs from class names + own "
                          "instance traits by %r" % (r.serial, sorted(set(got + got2) ^ set(want))),
                          sibling=r.serial)
            self.ctx.ev()
            self.ctx.count("filtered_inspections")
        for cname in self.family:
            self.class_check(cname, light=True)
        # a subclass defined now inherits exactly the classes' original traits
        if step_op in ("query", "add_trait", "remove_trait") or self.rng.random() < 0.2:
            self.op = step_op
            self.subclass_probe(self.rng.choice(self.family))
        self.op = step_op

    def subclass_probe(self, cname):
        base = self.classes[cname]
        with warnings.catch_warnings():
            warnings.simplefilter("ignore")
            probe = type(base)("Probe" + cname, (base,), {})
        names = (sorted(probe.class_trait_names()), sorted(probe.class_trait_names(**FILTER)),
                 sorted(probe.class_traits(**FILTER)))
        if names != self.ctn0[cname]:
            diff = sorted(set(sum(names, [])) ^ set(sum(self.ctn0[cname], [])))
            self.fail("class/subclass-traits-changed/%s" % self.op,
                      "a subclass of %s defined now has class traits differing by %r" % (cname, diff))
        self.ctx.ev()
        self.ctx.count("subclass_probes")

    # -- classes ---------------------------------------------------------------------
    def class_check(self, cname, baseline=False, light=False):
        """light: everything but the deep comparison of the declared defaults (that one
        runs once per step, in the pass attributed to the step's own operation)."""
        cls = self.classes[cname]
        ct = cls.class_traits()
        ids = {n: t for n, t in ct.items()}
        vs = set(k for k in vars(cls) if not k.startswith("_"))
        cdv = self.cdv0[cname] if light else {n: dvnorm(t) for n, t in self.ctraits[cname].items()}
        cen = {n: ncount(t) for n, t in self.ctraits[cname].items()}
        raw = getattr(cls, "__class_traits__", None)
        ckeys = sorted(raw) if isinstance(raw, dict) else None
        ctn = (sorted(cls.class_trait_names()), sorted(cls.class_trait_names(**FILTER)),
               sorted(cls.class_traits(**FILTER)))
        if baseline:
            self.ctn0[cname] = ctn
            self.class_traits0[cname] = ids
            self.vars0[cname] = vs
            self.cdv0[cname] = cdv
            self.census0[cname] = cen
            self.ckeys0[cname] = ckeys
            return
        op = self.op
        old = self.class_traits0[cname]
        if set(ids) != set(old) or any(ids[n] is not old[n] for n in ids):
            self.fail("class/class-traits-changed/%s" % op,
                      "%s.class_traits() changed: %r" % (cname, sorted(set(ids) ^ set(old)) or "identities"))
        if ctn != self.ctn0[cname]:
            diff = sorted(set(sum(ctn, [])) ^ set(sum(self.ctn0[cname], [])))
            self.fail("class/class-traits-changed/%s" % op,
                      "%s.class_trait_names() / filtered class_traits() changed by %r" % (cname, diff))
        if vs != self.vars0[cname]:
            self.fail("class/namespace-changed/%s" % op,
                      "vars(%s) changed by %r" % (cname, sorted(vs ^ self.vars0[cname])))
        for n in self.ctraits[cname]:
            if cdv[n] != self.cdv0[cname][n]:
                self.fail("class/declared-default-changed/%s/%s"
                          % (op, family(SPECS[cname][n][0]) if n in SPECS[cname] else "event"),
                          "%s: class trait %r default_value() is %s, was %s"
                          % (cname, n, short(cdv[n], 80), short(self.cdv0[cname][n], 80)), name=n)
            if cen[n] != self.census0[cname][n]:
                self.fail("class/notifier-census-changed/%s" % op,
                          "%s: class trait %r has %r notifiers, had %r"
                          % (cname, n, cen[n], self.census0[cname][n]), name=n)
        if ckeys != self.ckeys0[cname]:
            self.fail("class/class-trait-dict-changed/%s" % op,
                      "%s.__class_traits__ keys changed by %r"
                      % (cname, sorted(set(ckeys or ()) ^ set(self.ckeys0[cname] or ()))))
        self.ctx.ev()
        self.ctx.count("class_inspections")

    # -- one step -----------------------------------------------------------------------
    def choose_op(self):
        rng = self.rng
        ops = (("read", 3), ("mutate", 5), ("assign", 3), ("del", 3), ("otc", 2), ("observe", 2),
               ("unregister", 1), ("add_trait", 2.5), ("remove_trait", 1.2), ("new", 1.5),
               ("drop", 0.4), ("readall", 0.5), ("query", 2.5), ("transfer", 2.0), ("inplace", 2.0))
        tot = sum(w for _, w in ops)
        x = rng.random() * tot
        for name, w in ops:
            x -= w
            if x <= 0:
                return name
        return "read"

    def step(self):
        ctx = self.ctx
        rng = self.rng
        op = self.choose_op()
        if op == "new" and len(self.pool) >= 6:
            op = "mutate"
        if op == "drop" and len(self.pool) <= 2:
            op = "read"
        A = None
        del HUB.log[:]
        del HUB.excs[:]
        detail = None
        kind = "-"
        present = None
        touch = ()
        if op == "new":
            self.op = op
            cname = rng.choice(self.use)
            kwargs = None
            if rng.random() < 0.3:
                kwargs = {n: BASE_SPEC[n][4] for n in rng.sample(("c", "l", "d", "st", "al", "inst"),
                                                                  rng.randint(1, 2))}
            newrec = self.new_rec(cname, kwargs, attach=rng.random() < 0.5)
            detail = (cname, sorted(kwargs or ()), [(m, x) for m, x, _ in newrec.regs])
            # events of the construction belong to the new instance only
            for e in HUB.log:
                if e[1] != newrec.serial:
                    self.fail("isolation/foreign-handler-fired/new/%s" % e[0],
                              "constructing #%d reached %r" % (newrec.serial, e))
            self.trace.append((op, newrec.serial, detail))
            for r in self.pool:
                self.inspect_other(r)
            self.pool.append(newrec)
            self.inspect_own(newrec)
            ctx.count("instances_created")
            sigparts = (op, cname, bool(kwargs), bool(newrec.regs))
        elif op == "drop":
            self.op = op
            victim = rng.choice(self.pool)
            self.pool.remove(victim)
            HUB.unbind(victim.obj)
            self.trace.append((op, victim.serial))
            victim.obj = None
            victim.snap = None
            del victim
            for r in self.pool:
                self.inspect_other(r)
            if HUB.log:
                self.fail("isolation/foreign-handler-fired/drop/%s" % HUB.log[0][0],
                          "dropping an instance reached %r" % (HUB.log[0],))
            sigparts = (op,)
        else:
            A = rng.choice(self.pool)
            if op == "remove_trait" and not A.extras:
                withx = [r for r in self.pool if r.extras]
                if withx:
                    A = rng.choice(withx)
            if op == "query" and rng.random() < 0.5:
                # half of the queries go to an instance that carries its own added traits
                withx = [r for r in self.pool if any(n not in BASE_SPEC for n in r.extras)]
                if withx:
                    A = rng.choice(withx)
            o = A.obj
            names = A.names()
            if op == "readall":
                self.op = op
                self.trace.append((op, A.serial))
                order = list(names)
                rng.shuffle(order)
                for n in order:
                    self.checked_read(A, n, "first-read")
                sigparts = (op, A.cname)
            elif op == "read":
                n = rng.choice(names)
                self.op = op
                kind = A.dflt[n][0]
                present = n in o.__dict__
                self.trace.append((op, A.serial, n))
                self.checked_read(A, n, "first-read")
                sigparts = (op, kind, present)
            elif op == "mutate":
                cands = [n for n in names
                         if (A.dflt[n][1] not in IMMUTABLE_TYPES and n not in o.__dict__)
                         or pick_mutation(rng_null, o.__dict__.get(n, None), A.dflt[n][4]) is not None]
                n = rng.choice(cands)
                if rng.random() < 0.25:
                    # a quarter of the mutations go to containers of containers
                    nested = [x for x in cands if A.dflt[x][4] in NESTED or A.dflt[x][4] == "dictlist"]
                    if nested:
                        n = rng.choice(nested)
                self.op = op
                kind = A.dflt[n][0]
                present = n in o.__dict__
                self.trace.append((op, A.serial, n))
                v = self.checked_read(A, n, "first-read")
                m = pick_mutation(rng, v, A.dflt[n][4])
                self.trace[-1] = (op, A.serial, n, m)
                if m[0] == "inner":
                    ctx.count("inner_mutations")
                try:
                    apply_real(v, m)
                except Exception as e:
                    self.fail("op-raised/mutate/%s/%s" % (family(kind), type(e).__name__),
                              "mutating #%d.%s with %r raised %r" % (A.serial, n, m, e), name=n)
                A.model[n] = apply_model(A.model[n], m)
                ctx.count("own_mutations")
                sigparts = (op, kind, present, m[0])
            elif op == "assign":
                n = rng.choice(names)
                self.op = op
                kind = A.dflt[n][0]
                present = n in o.__dict__
                val = gen_value(rng, A.dflt[n][4])
                plain = norm(val)
                self.trace.append((op, A.serial, n, plain))
                touch = (n,)
                self.guard_counters(A)
                try:
                    setattr(o, n, val)
                except Exception as e:
                    self.fail("op-raised/assign/%s/%s" % (family(kind), type(e).__name__),
                              "#%d.%s = %s raised %r" % (A.serial, n, short(plain, 60), e), name=n)
                A.model[n] = plain
                self.check_counters(A, touch, epoch=not present)
                if A.dflt[n][3] == "method":
                    self.check_period(A, n)
                self.new_period(A, n)
                sigparts = (op, kind, present)
            elif op == "del":
                # reset to the default: `del o.n`, or reset_traits([..]); preferably names whose value
                # is stored (read or assigned before); then read again: the default of the new
                # unassigned period is computed at most once, it is the object the handlers were
                # told about, and it belongs to this instance
                self.op = op
                stored = [x for x in names if x in o.__dict__]
                pickfrom = stored if stored and rng.random() < 0.75 else names
                via = "delattr" if rng.random() < 0.6 else "reset_traits"
                ns = [rng.choice(pickfrom)] if via == "delattr" else \
                    rng.sample(pickfrom, min(len(pickfrom), rng.randint(1, 3)))
                n = ns[0]
                kind = A.dflt[n][0]
                present = n in o.__dict__
                was_stored = {x: x in o.__dict__ for x in ns}
                self.trace.append((op, A.serial, via, ns))
                touch = tuple(ns)
                self.guard_counters(A)
                for x in ns:
                    self.new_period(A, x)
                del HUB.news[:]
                HUB.capture = True
                try:
                    if via == "delattr":
                        delattr(o, n)
                    else:
                        left = o.reset_traits(list(ns))
                        if left:
                            self.fail("op-raised/reset_traits/not-reset",
                                      "#%d.reset_traits(%r) could not reset %r" % (A.serial, ns, left))
                except Violation:
                    raise
                except Exception as e:
                    self.fail("op-raised/del/%s/%s" % (family(kind), type(e).__name__),
                              "%s of #%d.%s raised %r" % (via, A.serial, ns, e), name=n)
                finally:
                    HUB.capture = False
                told = list(HUB.news)
                del HUB.news[:]
                for x in ns:
                    A.model[x] = copy.deepcopy(A.dflt[x][2])
                self.check_counters(A, touch, epoch=True)
                ctx.count("reset_ops")
                notified = self.static or bool(A.regs)
                if any(was_stored.values()) and notified:
                    ctx.count("reset_ops_on_stored_value_with_notifier")
                elif any(was_stored.values()):
                    ctx.count("reset_ops_on_stored_value_without_notifier")
                # a following read is a first read again (new period)
                if rng.random() < 0.75:
                    for x in ns:
                        v = self.checked_read(A, x, "read-after-del")
                        if A.dflt[x][1] in IMMUTABLE_TYPES:
                            continue
                        for mech, owner, name, new in told:
                            if name != x or new is None or owner != A.serial:
                                continue
                            ctx.count("reset_new_identity_checks")
                            if new is not v:
                                self.fail("default-after-reset/handler-was-given-another-object/%s"
                                          % family(A.dflt[x][0]),
                                          "the %s handler of #%d.%s was told the value reverts to %s (a %s), "
                                          "later reads return a different object (%s)"
                                          % (mech, A.serial, x, brief(new), type(new).__name__, brief(v)),
                                          name=x)
                sigparts = (op, via, kind, present, len(ns), bool(told))
            elif op == "otc":
                self.op = op
                name = rng.choice(self.OTC_NAMES + tuple(x for x in A.extras if x not in BASE_SPEC))
                self.trace.append((op, A.serial, name))
                first = name.replace("[]", "").split(".")[0] if name else None
                touch = (first,) if first in A.dflt else ()
                self.guard_counters(A)
                try:
                    self.reg_otc(A, name)
                except Exception as e:
                    detail = type(e).__name__
                    ctx.count("registration_exceptions")
                    ctx.count("registration_exceptions/%s/%s" % (op, detail))
                self.check_counters(A, touch, epoch=True)
                sigparts = (op, name, detail)
            elif op == "observe":
                self.op = op
                expr = rng.choice(self.OBS_EXPRS)
                self.trace.append((op, A.serial, expr))
                first = expr.replace(":", ".").replace("?", "").split(".")[0]
                touch = (first,)
                self.guard_counters(A)
                try:
                    self.reg_obs(A, expr)
                except Exception as e:
                    detail = type(e).__name__
                    ctx.count("registration_exceptions")
                    ctx.count("registration_exceptions/%s/%s" % (op, detail))
                self.check_counters(A, touch, epoch=True)
                sigparts = (op, expr, detail)
            elif op == "unregister":
                self.op = op
                live = A.regs      # registrations on removed instance traits were forgotten
                if not live:
                    self.trace.append((op, A.serial, None))
                    sigparts = (op, None)
                else:
                    reg = rng.choice(live)
                    A.regs.remove(reg)
                    self.trace.append((op, A.serial, reg[0], reg[1]))
                    self.guard_counters(A)
                    try:
                        if reg[0] == "otc":
                            if reg[1] is None:
                                o.on_trait_change(reg[2], remove=True)
                            else:
                                o.on_trait_change(reg[2], reg[1], remove=True)
                        else:
                            o.observe(reg[2], self.obs_expr(reg[1]), remove=True)
                    except Exception as e:
                        detail = type(e).__name__
                        ctx.count("registration_exceptions")
                        ctx.count("registration_exceptions/%s/%s" % (op, detail))
                    first = (reg[1] or "").replace("[]", "").replace(":", ".").replace("?", "").split(".")[0]
                    self.check_counters(A, (first,), epoch=True)
                    sigparts = (op, reg[0], reg[1], detail)
            elif op == "transfer":
                # A receives the container value(s) read from a sibling S for the same trait(s):
                # a container trait copies what it is given, so A gets containers of its own
                self.op = op
                others = [r for r in self.pool if r is not A]
                same = [r for r in others if r.cname == A.cname]
                S = rng.choice(same if same and rng.random() < 0.7 else others)
                bulk = rng.random() < 0.3
                ns = rng.sample(TRANSFER_NAMES, rng.randint(2, 4)) if bulk else [rng.choice(TRANSFER_NAMES)]
                self.trace.append((op, A.serial, "from", S.serial, ns, "trait_set" if bulk else "setattr"))
                kind = A.dflt[ns[0]][0]
                present = ns[0] in o.__dict__
                nlog = len(HUB.log)
                vals = {n: self.checked_read(S, n, "first-read") for n in ns}
                if len(HUB.log) != nlog:
                    self.fail("default-read/not-silent/%s" % HUB.log[nlog][0], "reading #%d reached %r"
                              % (S.serial, HUB.log[nlog]))
                try:
                    equal = bool(o == S.obj)
                except Exception:
                    equal = False
                absent = tuple(n for n in ns if n not in o.__dict__)
                self.guard_counters(A)
                try:
                    if bulk:
                        o.trait_set(**S.obj.trait_get(*ns))
                    else:
                        setattr(o, ns[0], vals[ns[0]])
                except Exception as e:
                    self.fail("op-raised/transfer/%s/%s" % (family(kind), type(e).__name__),
                              "assigning #%d.%s to #%d raised %r" % (S.serial, ns, A.serial, e))
                for n in ns:
                    A.model[n] = copy.deepcopy(S.model[n])
                    if A.dflt[n][3] == "method":
                        self.check_period(A, n)
                    self.new_period(A, n)
                self.check_counters(A, absent, epoch=True)
                for n in ns:
                    mine = o.__dict__.get(n, ABSENT)
                    theirs = S.obj.__dict__.get(n, ABSENT)
                    for p in mutable_parts(mine) if mine is not ABSENT else ():
                        ctx.count("sharing_comparisons")
                        if any(p is q for q in mutable_parts(theirs)):
                            self.fail("shared-value/after-assigning-sibling-container/%s" % family(A.dflt[n][0]),
                                      "after #%d.%s = #%d.%s the two instances hold the same %s object"
                                      % (A.serial, n, S.serial, n, type(p).__name__), name=n, sibling=S.serial)
                ctx.count("transfer_ops")
                if equal:
                    ctx.count("transfer_ops_between_equal_instances")
                sigparts = (op, kind, present, bulk, equal, S.cname == A.cname)
            elif op == "inplace":
                # an in-place route of A's own container that takes the sibling's LIVE container
                # (or one of its inner containers) as the argument; the container is reached
                # through the attribute or through a local variable
                self.op = op
                others = [r for r in self.pool if r is not A]
                same = [r for r in others if r.cname == A.cname]
                S = rng.choice(same if same and rng.random() < 0.7 else others)
                n = rng.choice(INPLACE_NESTED if rng.random() < 0.6 else INPLACE_FLAT)
                vt = A.dflt[n][4]
                kind = A.dflt[n][0]
                present = n in o.__dict__
                self.trace.append((op, A.serial, n, "from", S.serial))
                X = self.checked_read(S, n, "first-read")
                T = self.checked_read(A, n, "first-read")
                route = rng.choice(inplace_routes(T, X, vt))
                local = rng.random() < 0.5
                self.trace[-1] = (op, A.serial, n, "from", S.serial, route, "local" if local else "attr")
                src = copy.deepcopy(S.model[n])
                try:
                    A.model[n] = apply_route(o, n, T if local else None, X, route, rng, A.model[n], src)
                except Exception as e:
                    self.fail("op-raised/inplace/%s/%s/%s" % (route[0], family(kind), type(e).__name__),
                              "%s of #%d.%s with #%d.%s raised %r" % (route, A.serial, n, S.serial, n, e), name=n)
                mine = o.__dict__.get(n, ABSENT)
                theirs = mutable_parts(S.obj.__dict__.get(n))
                for part in mutable_parts(mine) if mine is not ABSENT else ():
                    ctx.count("sharing_comparisons", len(theirs))
                    if any(part is q for q in theirs):
                        self.fail("shared-value/after-in-place-update-from-sibling-container/%s/%s"
                                  % (route[0], family(kind)),
                                  "after %s on #%d.%s with #%d.%s as argument the two instances hold the "
                                  "same %s object" % (route[0], A.serial, n, S.serial, n, type(part).__name__),
                                  name=n, sibling=S.serial)
                nested = n in INPLACE_NESTED
                if nested and rng.random() < 0.6:
                    # mutate an inner container of the target right away (S is inspected below)
                    cur = getattr(o, n)
                    m = pick_mutation(rng, cur, vt)
                    self.trace.append(("mutate", A.serial, n, m))
                    apply_real(cur, m)
                    A.model[n] = apply_model(A.model[n], m)
                    if m[0] == "inner":
                        ctx.count("inner_mutations")
                ctx.count("inplace_sibling_ops")
                if nested:
                    ctx.count("inplace_sibling_ops_nested")
                if local:
                    ctx.count("inplace_sibling_ops_local_variable")
                sigparts = (op, kind, present, route[0], local, S.cname == A.cname)
            elif op == "query":
                self.op = op
                q = rng.choice(QUERY_NAMES)
                own = sorted(n for n in A.extras if n not in BASE_SPEC)
                if q == "copy" and own:
                    # copy.copy() re-assigns the state on the new object: for a name that is an
                    # instance trait of the original this is an assignment to an undeclared name,
                    # i.e. wildcard-name resolution (cached in the class by design, DESIGN C10/N);
                    # the state extraction half of the copy is still exercised
                    q = "getstate"
                self.trace.append((op, A.serial, q, own))
                self.guard_counters(A)
                try:
                    res = QUERIES[q](o)
                except Exception as e:
                    self.fail("op-raised/query/%s/%s" % (q, type(e).__name__),
                              "%s on #%d raised %r" % (q, A.serial, e))
                if isinstance(res, HasTraits):
                    detail = "copy"
                del res
                # values may have been read (state, copies): at most one default run per name
                d0 = self._g[0]
                for k, v in HUB.dcalls.items():
                    if k[0] == A.serial and v - d0.get(k, 0) > 1:
                        self.fail("default-method/ran-more-than-once",
                                  "_%s_default of #%d ran %d times during %s" % (k[1], A.serial, v - d0.get(k, 0), q),
                                  name=k[1])
                ctx.count("query_ops")
                if own:
                    ctx.count("query_ops_on_instance_with_added_traits")
                sigparts = (op, q, bool(own), detail)
            elif op == "add_trait":
                self.op = op
                n = rng.choice(ADDABLE)
                k = rng.randrange(5)
                trait, spec = extra_def(n, k)
                present = n in o.__dict__
                self.trace.append((op, A.serial, n, k))
                kind = spec[0]
                self.guard_counters(A)
                try:
                    o.add_trait(n, trait)
                except Exception as e:
                    self.fail("op-raised/add_trait/%s/%s" % (kind, type(e).__name__),
                              "#%d.add_trait(%r) raised %r" % (A.serial, n, e), name=n)
                A.extras[n] = spec
                A.dflt[n] = spec
                self.new_period(A, n)
                if not present:
                    A.model[n] = copy.deepcopy(spec[2])
                self.check_counters(A, (), epoch=False)
                ctx.count("add_trait_ops")
                sigparts = (op, kind, present, n in BASE_SPEC)
            elif op == "remove_trait":
                self.op = op
                if not A.extras:
                    self.trace.append((op, A.serial, None))
                    sigparts = (op, None)
                else:
                    n = rng.choice(sorted(A.extras))
                    kind = A.extras[n][0]
                    present = n in o.__dict__
                    self.trace.append((op, A.serial, n))
                    self.guard_counters(A)
                    try:
                        o.remove_trait(n)
                    except Exception as e:
                        self.fail("op-raised/remove_trait/%s/%s" % (kind, type(e).__name__),
                                  "#%d.remove_trait(%r) raised %r" % (A.serial, n, e), name=n)
                    del A.extras[n]
                    self.new_period(A, n)
                    if n in BASE_SPEC:
                        A.dflt[n] = A.cspec[n]
                        A.model[n] = copy.deepcopy(A.cspec[n][2])
                    else:
                        del A.dflt[n]
                        del A.model[n]
                        A.regs = [x for x in A.regs if x[0] != "otc" or x[1] is None
                                  or not x[1].startswith(n)]
                    self.check_counters(A, (n,), epoch=True)
                    ctx.count("remove_trait_ops")
                    sigparts = (op, kind, present, n in BASE_SPEC)
            else:
                raise AssertionError(op)
            # ownership of everything that fired during the step
            mechs = set()
            for e in HUB.log:
                mechs.add(e[0])
                if e[1] != A.serial and not (op == "query" and e[1] == -1):
                    self.fail("isolation/foreign-handler-fired/%s/%s" % (op, e[0]),
                              "a step on #%d reached a recorder of #%d: %r" % (A.serial, e[1], e),
                              target=A.serial)
                if e[0] != "observe" and e[2] not in (A.serial, -1):     # -1: A's own Foo
                    self.fail("isolation/foreign-object-notified/%s/%s" % (op, e[0]),
                              "a step on #%d produced a notification about #%d: %r" % (A.serial, e[2], e),
                              target=A.serial)
            ctx.count("handler_events_on_target", len(HUB.log))
            if HUB.excs:
                self.fail("notification-exception/%s" % op,
                          "an exception was raised inside a notification: %r" % (HUB.excs[0],))
            for r in self.pool:
                if r is not A:
                    self.inspect_other(r)
            self.inspect_own(A)
            regm = tuple(sorted(set(x[0] for x in A.regs)))
            sigparts = sigparts + (A.cname, regm, tuple(sorted(mechs)))
        ctx.count("steps")
        ctx.sig(self.static, self.valeq, *sigparts)
        # classes, fresh instances, siblings again
        self.after_step()

    # counters of A around an operation that is not a plain read
    def guard_counters(self, A):
        self._g = ({k: v for k, v in HUB.dcalls.items() if k[0] == A.serial}, HUB.fac2, FOO_COUNT[0])

    def check_counters(self, A, touch, epoch):
        d0, f0, g0 = self._g
        for k, v in HUB.dcalls.items():
            if k[0] != A.serial:
                continue
            dd = v - d0.get(k, 0)
            if dd == 0:
                continue
            if k[1] not in touch or dd > 1 or not epoch:
                self.fail("default-method/ran-unexpectedly/%s" % self.op,
                          "_%s_default of #%d ran %d times during %s (touching %r)"
                          % (k[1], A.serial, dd, self.op, touch), name=k[1])
            self.ctx.count("default_method_runs_in_ops")
        lim_f = 1 if ("fac2" in touch and epoch) else 0
        lim_g = sum(1 for x in ("inst", "inst2") if x in touch) if epoch else 0
        if HUB.fac2 - f0 > lim_f or FOO_COUNT[0] - g0 > lim_g:
            self.fail("default-factory/ran-unexpectedly/%s" % self.op,
                      "factory ran %d times / Foo() created %d times during %s (touching %r)"
                      % (HUB.fac2 - f0, FOO_COUNT[0] - g0, self.op, touch))

    # -- driver -------------------------------------------------------------------------
    def run(self, nsteps):
        rng = self.rng
        HUB.reset()
        self.static = rng.random() < 0.6
        self.valeq = rng.random() < 0.4
        if self.valeq:
            self.ctx.count("value_equality_histories")
        self.classes = build(self.static, self.valeq)
        self.use = rng.choice([("Base",), ("Sub",), ("Base", "Sub"), ("Sub", "SubSub"),
                               ("Base", "Sub", "SubSub"), ("Base", "SubSub")])
        # fresh instances of every class of the family are checked, also of the
        # classes without pool instances (they share CTrait objects)
        self.family = ("Base", "Sub", "SubSub") if rng.random() < 0.5 else self.use
        self.op = "setup"
        for cname in self.family:
            self.fresh_check(cname, baseline=True)
            self.class_check(cname, baseline=True)
        for _ in range(2):
            r = self.new_rec(rng.choice(self.use), attach=rng.random() < 0.5)
            self.pool.append(r)
        for r in self.pool:
            self.inspect_own(r)
        self.op = "new"
        self.after_step()
        for _ in range(nsteps):
            self.step()
        # final sweep: every instance, every name, whatever happened to the siblings
        for A in list(self.pool):
            self.op = "final-readall"
            del HUB.log[:]
            self.trace.append(("final-readall", A.serial))
            for n in A.names():
                self.checked_read(A, n, "first-read")
            for r in self.pool:
                if r is not A:
                    self.inspect_other(r)
            self.inspect_own(A)
        self.after_step()


class _NullRng:
    """pick_mutation() used only as a 'is this value mutable' predicate."""

    def randrange(self, *a):
        return 0

    def random(self):
        return 0.99


rng_null = _NullRng()


def run(ctx):
    push_exception_handler(handler=lambda o, n, old, new: HUB.legacy_exc(o, n, old, new),
                           reraise_exceptions=False, main=True)
    obs_push_exception_handler(handler=lambda ev: HUB.obs_exc(ev), reraise_exceptions=False)
    nh = ctx.scale(4000, 80000)
    for h in range(nh):
        if not ctx.mine(h):
            continue
        if not ctx.begin("hist:%d" % h):
            continue
        try:
            rng = ctx.rng("hist", h)
            nsteps = 15 if ctx.quick else rng.choice((15, 15, 20, 25))
            H = History(ctx, h, rng)
            try:
                H.run(nsteps)
            except Violation:
                pass
            except Exception as e:      # an exception escaping traits during a valid operation
                import traceback
                tb = traceback.extract_tb(e.__traceback__)
                inner = tb[-1]
                try:
                    H.fail("unexpected-exception/%s/%s" % (H.op, type(e).__name__),
                           "%r escaped at %s:%s" % (e, inner.filename.split("/")[-1], inner.name),
                           traceback=traceback.format_exc()[-1500:])
                except Violation:
                    pass
            if h // ctx.nshards < 2:
                ctx.sample({"static_handlers": H.static, "classes": list(H.use),
                            "history": H.trace[:8]})
            # break reference cycles of the history before the next one
            for r in H.pool:
                r.obj = None
            H.pool = []
            H.prev_fresh = {}
        finally:
            ctx.end()
    # stratum "wildcard": the same isolation laws on names resolved through wildcard declarations
    from vf.monitors import _c10_wild
    _c10_wild.run(ctx, lambda: HUB.excs)
    # stratum "failhook": a hook fails while a default is being materialised, then the reads go on
    from vf.monitors import _c10_failhook
    _c10_failhook.run(ctx, lambda: HUB.excs)
    # stratum "sidefx": the code computing a default assigns / reads / listens to / resets the same object
    from vf.monitors import _c10_sidefx
    _c10_sidefx.run(ctx, lambda: HUB.excs)
