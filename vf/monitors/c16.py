"""C16 -- legacy `on_trait_change` extended names agree with `observe` on trees.

Three voices are registered on the same root for a pair of names that means the
same thing in both systems (`cs.v` <-> `cs.items.v`, ...): the legacy 4-argument
handler, the legacy 0-argument handler and an observe handler.  After every
operation of a random history on a tree-shaped object graph (every inserted
object is fresh, or the root of a fully detached subtree) the calls are compared
class by class, and with a from-scratch reachability walk of the graph:

  final   calls for the final attribute: legacy4 == observe == model
  link    reassignment of an intermediate link: reported once by both for '.',
          by neither for ':' (nor for links that are not on the path)
  item    item-level mutation of an intermediate container: legacy0 called <=>
          observe delivered a container event ('.'), everybody silent (':')
  after-remove  no call from anybody
  multi   further owner objects register bound methods under the same names;
          all live owners log the same calls; collecting one owner leaves the
          others' registrations fully working and removable
  stale   a container object replaced by an assignment (the caller kept a
          reference) is unreachable: mutating it and changing leaves of objects
          only reachable through it is silent for everybody

  early   the legacy registration is made on the bare root - by the public
          deferred=True argument or by the @on_trait_change decorator on methods
          of the root (post_init False / True) - and the root's links get their
          values afterwards; same laws, in particular removal stops all calls
  sigs    the other documented legacy signatures are registered too:
          handler(object, name, new) logs the projection of the 4-argument
          voice always; handler(new) / handler(name, new) - where supported: first
          link an Instance or a ':' link - are called for a final attribute
          iff the 4-argument voice is, also below a first link set to None
  late    deferred=True on the fully built tree (known finding, own stratum)
  truth   histories of their own on node classes whose instances may be FALSE
          (__len__ over a list of the node's own / over its list link, __bool__
          over a flag trait, constantly false); operations of their own change
          the truth value between hooking and detaching; same laws (an object's
          truth value is not reachability); keys get '+falsy-nodes'

Every step is followed by a probe phase that changes the final attribute on
every node of the tree and on recently detached nodes.  See DESIGN.md 4 / C16.
"""
import gc
import itertools
import weakref

from traits.api import (
    Any, Bool, HasTraits, Int, Instance, List, Dict, Set, Str, on_trait_change,
    push_exception_handler,
)
from traits.observation.api import (
    push_exception_handler as obs_push_exception_handler,
)
from traits.observation.events import TraitChangeEvent
from traits.trait_list_object import TraitListEvent
from traits.trait_dict_object import TraitDictEvent
from traits.trait_set_object import TraitSetEvent

META = {
    "level": "exploration",
    "rule": ("case = one history: (name pair out of 102 (quick) / 163 (thorough) generated from "
             "links c/d (Instance), cs (List), cd (Dict values), ss (Set), groups [a,b], separators "
             "'.'/':' at every position, depth 1-3, final v or [v,w]) x handler flavour (functions "
             "/ bound methods) x node flavour (plain identity-equal nodes / nodes with value "
             "equality by a tag, so that links and whole containers get replaced by distinct but "
             "EQUAL objects / nodes whose links have dynamic defaults creating fresh children, "
             "left unread until the listeners' own hook-up materialises them; plus a 5% stratum "
             "of its own for value-equal whole-dict replacements, finding F44) x in a 9% stratum "
             "1-2 FURTHER handler owners whose bound methods are registered under the same names "
             "on the same root through both APIs and which are dropped and collected while the "
             "registration stands (every live owner must log exactly what the primary logs; the "
             "survivors must keep following the graph and stop on removal) x in a 15% stratum an "
             "EARLY legacy registration: made on the bare root by on_trait_change(..., "
             "deferred=True) or by the @on_trait_change(name) decorator on methods of the root's "
             "class (post_init False / True), the root's links being assigned afterwards (keys "
             "get '+early-reg'); re-registration after removal is a plain call x in a 16% stratum "
             "the remaining legacy SIGNATURES registered alongside: handler(object, name, new) "
             "must log the projection of every 4-argument call; handler(new) and handler(name, "
             "new) - registered where the first link is an Instance link or a ':' link, the "
             "combinations they support - must be called with (new) / (name, new) for a final "
             "attribute iff the 4-argument voice is, stay silent after removal, and be called "
             "as often as the 0-argument voice for deeper links and items; assignments to the "
             "first '.' link (40% of them to None there; a third of these histories draw a name "
             "whose first link is an Instance '.' link) are answered by one call or one logged "
             "TraitError per voice and are followed by probes of the detached subtree x in a 3% "
             "stratum a LATE deferred=True registration on the fully built tree (known finding "
             "late-deferred/observe-only) x in a stratum of FURTHER histories (+12%) node "
             "classes whose instances may be FALSE: __len__ over a list trait of the node's own "
             "that is on no name, __bool__ over a flag trait (both: half of the nodes start false, "
             "and 24% of the operations are truth-value changes - by assignment or by in-place "
             "mutation of the list - mostly of objects on the path, the root included, mostly "
             "from true to false, so that objects are hooked while true and replaced / removed / "
             "left in a replaced container / below a detached parent / under a removed "
             "registration while false, and the other way round; such a change must not be "
             "reported by anybody), __len__ over the node's own list link cs (ordinary container "
             "operations change the truth value), and a constantly false __bool__; all link kinds "
             "(Instance, List, Dict, Set, groups), all other strata (early, sigs, multi) combine; "
             "truth is not reachability, the laws are unchanged (keys get '+falsy-nodes') "
             "x random tree x 16-20 (thorough: 16-28) random operations (link reassignment to fresh subtree / None, "
             "whole-container assignment, every mutating list/dict/set method, re-insertion of a "
             "detached subtree root, on attached on-path, attached off-path and detached nodes; "
             "mutation - mostly insertion of fresh subtrees - of a container OBJECT that an earlier "
             "assignment replaced and the caller kept: nothing below it is reachable), "
             "removal of the registrations late in the history (sometimes followed by a fresh "
             "registration); after every operation one probe (final attribute += 1) per tree node "
             "and per recently detached node and per node below a replaced container.  "
             "distinct_nontrivial counts distinct (name-pair "
             "class, operation kind, position class of the target, outcome class per voice) "
             "signatures of operations/probes in which at least one voice was called or the model "
             "expected a call."),
    "phases": [{"name": "main", "flavour": "P", "shards": 16}],
    "gates": {
        # gates are on NON-EMPTY matched comparisons (DESIGN C16, note N): a comparison counts
        # only if the voices were actually called (or, for the *_silent ones, the model says
        # they would have been called had the link been '.', the node attached, the
        # registration still there)
        "quick": {"evaluations": 500000, "final_nonempty_matched": 40000,
                  "link_reported_matched": 2500, "link_colon_silent_matched": 2500,
                  "item_dot_matched": 3000, "item_colon_silent_matched": 2800,
                  "after_remove_nonvacuous_silent": 10000, "detached_nonvacuous_silent": 40000,
                  "reinsert_nonempty_matched": 2000,
                  # replaced ("stale") containers whose former owner.attr is on the path
                  "stale_hot_ops_silent": 800, "stale_nonvacuous_silent": 12000,
                  # value-equal nodes: distinct-but-equal replacements of on-path links
                  "eq_equal_replacements_onpath": 600, "link_equal_silent_matched": 500,
                  "eqd_patterns_drawn": 100,
                  # several handler owners under the same names, some collected mid-history
                  "multi_owner_drops": 140, "multi_follower_agree_nonempty": 2000,
                  "multi_post_drop_new_nonempty_matched": 1100,
                  "multi_after_remove_nonvacuous_silent": 700,
                  # dynamic defaults materialised by the hook-up itself, and probes of
                  # the objects they created (attached / detached / after removal)
                  "dyn_defaults_by_hookup": 500, "dyn_nonempty_matched": 2500,
                  "dyn_detached_nonvacuous_silent": 3500,
                  "dyn_after_remove_nonvacuous_silent": 1500,
                  # early registrations (deferred=True / decorator) and their removal;
                  # *_seq_*: first link a List or a Set
                  "early_registrations_deferred": 120, "early_registrations_deco-pre": 120,
                  "early_registrations_deco-post": 120, "early_nonempty_matched": 8000,
                  "early_after_remove_nonvacuous_silent": 2500,
                  "early_seq_after_remove_nonvacuous_silent": 1000,
                  # 1-/2-/3-argument legacy signatures; dst_*: handler(new), handler(name, new)
                  "sigs_final_nonempty_matched": 8000, "sigs_after_remove_nonvacuous_silent": 2400,
                  "sigs_op_reports_matched": 1700,
                  "dst_final_nonempty_matched": 5500, "dst_dot_final_nonempty_matched": 3000,
                  "dst_detached_nonvacuous_silent": 9000, "dst_link0_cleared": 300,
                  "dst_cleared_detached_nonvacuous_silent": 900,
                  "late_deferred_registrations": 55, "late_deferred_nonempty_matched": 400,
                  # nodes that may be false: truth-value changes of on-path objects; final calls
                  # for false objects; silence of objects detached while they (or an object
                  # above them in the detached subtree) were false, per kind of the detaching
                  # link; the same for objects true when hooked and false when detached; and
                  # after the removal of the registration
                  "truth_flips_onpath": 700, "truth_falsy_nonempty_matched": 6000,
                  "truth_falsy_detached_nonvacuous_silent": 7500,
                  "truth_falsy_detached_silent:inst": 1800,
                  "truth_falsy_detached_silent:list": 1800,
                  "truth_falsy_detached_silent:dict": 1500,
                  "truth_falsy_detached_silent:set": 1100,
                  "truth_falsy_detached_silent:group": 900,
                  "truth_turned_falsy_detached_silent": 450,
                  "truth_falsy_after_remove_nonvacuous_silent": 2000,
                  "truth_turned_falsy_after_remove_silent": 140},
        "thorough": {"evaluations": 8000000, "final_nonempty_matched": 500000,
                     "link_reported_matched": 35000, "link_colon_silent_matched": 35000,
                     "item_dot_matched": 40000, "item_colon_silent_matched": 40000,
                     "after_remove_nonvacuous_silent": 150000, "detached_nonvacuous_silent": 600000,
                     "reinsert_nonempty_matched": 30000,
                     "stale_hot_ops_silent": 12000, "stale_nonvacuous_silent": 200000,
                     "eq_equal_replacements_onpath": 7000, "link_equal_silent_matched": 6000,
                     "eqd_patterns_drawn": 1200,
                     "multi_owner_drops": 1700, "multi_follower_agree_nonempty": 24000,
                     "multi_post_drop_new_nonempty_matched": 13000,
                     "multi_after_remove_nonvacuous_silent": 8000,
                     "dyn_defaults_by_hookup": 6000, "dyn_nonempty_matched": 30000,
                     "dyn_detached_nonvacuous_silent": 40000,
                     "dyn_after_remove_nonvacuous_silent": 18000,
                     "early_registrations_deferred": 1400, "early_registrations_deco-pre": 1400,
                     "early_registrations_deco-post": 1400, "early_nonempty_matched": 100000,
                     "early_after_remove_nonvacuous_silent": 30000,
                     "early_seq_after_remove_nonvacuous_silent": 12000,
                     "sigs_final_nonempty_matched": 100000,
                     "sigs_after_remove_nonvacuous_silent": 28000,
                     "sigs_op_reports_matched": 20000,
                     "dst_final_nonempty_matched": 65000, "dst_dot_final_nonempty_matched": 36000,
                     "dst_detached_nonvacuous_silent": 100000, "dst_link0_cleared": 3600,
                     "dst_cleared_detached_nonvacuous_silent": 10000,
                     "late_deferred_registrations": 650, "late_deferred_nonempty_matched": 4800,
                     "truth_flips_onpath": 11000, "truth_falsy_nonempty_matched": 85000,
                     "truth_falsy_detached_nonvacuous_silent": 110000,
                     "truth_falsy_detached_silent:inst": 28000,
                     "truth_falsy_detached_silent:list": 26000,
                     "truth_falsy_detached_silent:dict": 25000,
                     "truth_falsy_detached_silent:set": 20000,
                     "truth_falsy_detached_silent:group": 9000,
                     "truth_turned_falsy_detached_silent": 6500,
                     "truth_falsy_after_remove_nonvacuous_silent": 28000,
                     "truth_turned_falsy_after_remove_silent": 1800},
    },
    "assumptions": [
        "graphs are tree-shaped: every object is referenced from at most one place",
        "the reachability model reads the object graph through instance __dict__ (no side effects)",
        "item-level mutation of '.' links is compared through the legacy 0-argument signature only "
        "(the 4-argument signature is registered for <name>_items only below the first link)",
        "a container object that is no longer the value of its trait (replaced by an assignment) is "
        "not an intermediate link: its mutation and the leaves of objects only reachable through "
        "it must be silent for every voice; its members are not re-inserted elsewhere while it "
        "still refers to them (tree shape)",
        "node flavour 'eq': reachability and tree shape are about object identity; replacing a "
        "link value by a distinct but equal one is not reported by either system (equality "
        "comparison mode; only agreement is demanded) but the final-attribute law applies to the "
        "new and the old object all the same; set algebra with foreign-but-equal objects is kept "
        "out (TraitSet reports the foreign object as removed: C07's subject)",
        "'truth' stratum: an object's truth value (__len__ / __bool__ of a HasTraits subclass) is "
        "neither identity nor reachability; the harness itself never tests a node for truth "
        "except to record it, and the nodes' __len__ / __bool__ read instance __dict__ only",
        "'multi' stratum: a handler owner counts as gone once a weak reference to it is dead; a "
        "failure after such a drop gets the key suffix '+owner-dropped'",
        "node flavour 'dyn': `del obj.link` (reset to default) is not part of the alphabet: the "
        "on_trait_change documentation does not mention deletion",
        "a whole-container assignment whose old and new contents are equal (both empty) is not a "
        "change for either system (equality comparison mode); only agreement is demanded there",
        "'early' stratum: deferred=True means 'hook up when the link is first read or set'; the "
        "registration is therefore made before the root's links have values (what the decorator "
        "does at construction); a link of the root that was never assigned nor read is reported "
        "with whatever (empty) old value both systems agree on",
        "'sigs' stratum: handler(new) / handler(name, new) on a first '.' link that is a container "
        "(or a group containing one) answer every change with a TraitError and do not re-hook, by "
        "design ('signature is incompatible with a change to an intermediate trait'): not "
        "registered there; on an Instance first '.' link an assignment is answered by one call for "
        "the new destination or one logged TraitError per voice (at most two are taken out of the "
        "exception channel), neither is judged; the final-attribute law is",
    ],
}

# --------------------------------------------------------------------------
# harness classes


class N(HasTraits):
    v = Int
    w = Int
    c = Instance("N")
    d = Instance("N")
    cs = List(Instance("N"))
    cd = Dict(Str, Instance("N"))
    ss = Set(Instance("N"))
    ser = Int
    tag = Int          # value the "eq" flavour compares by
    dyn = Any          # (pool, {attr: literal spec of the default}, sink): "dyn" flavour

    def __repr__(self):
        return "N%d" % self.__dict__.get("ser", -1)

    def __hash__(self):
        # deterministic set iteration order (replays); identity equality kept
        return self.__dict__.get("ser", 0)


class NE(N):
    """Node flavour "eq": value equality (by tag), consistent hash.  Distinct
    objects may compare equal; 'tree-shaped' stays a statement about identity."""

    def __eq__(self, other):
        return isinstance(other, N) and \
            self.__dict__.get("tag", 0) == other.__dict__.get("tag", 0)

    def __ne__(self, other):
        return not self.__eq__(other)

    def __hash__(self):
        return 7 + self.__dict__.get("tag", 0)


class ND(N):
    """Node flavour "dyn": links may have dynamic defaults that create fresh
    child objects on first read (`_cs_default` returning [N(), N()], the
    analogue of Instance(N, ()) for c/d).  The harness never reads a link
    before the systems under test do (the model walks instance __dict__)."""

    def _dd(self, attr, empty):
        d = self.__dict__.get("dyn")
        if not d or attr not in d[1]:
            return empty
        pool, specs, sink = d
        sp = specs[attr]
        k = KIND[attr]
        if k == "inst":
            val = build(sp, pool) if sp["s"] not in pool else None
            made = [val] if val is not None else []
        elif k == "dict":
            val = {key: build(x, pool) for key, x in sp.items() if x["s"] not in pool}
            made = list(val.values())
        else:
            made = [build(x, pool) for x in sp if x["s"] not in pool]
            val = set(made) if k == "set" else made
        sink.append((ser(self), attr, made))
        return val

    def _c_default(self):
        return self._dd("c", None)

    def _d_default(self):
        return self._dd("d", None)

    def _cs_default(self):
        return self._dd("cs", [])

    def _cd_default(self):
        return self._dd("cd", {})

    def _ss_default(self):
        return self._dd("ss", set())


# "eqd" is the stratum of its own for value-equal whole-DICT replacements (finding F44,
# see run_history); "eq" never draws that pattern.
NODE_CLASSES = {"plain": N, "eq": NE, "eqd": NE, "dyn": ND}


class NLen(N):
    """Node flavour "len": a container-like node whose truth value is its size
    (`__len__` over a list of its own that is no link of any name)."""
    bag = List(Int)

    def __len__(self):
        return len(self.__dict__.get("bag") or ())


class NFlag(N):
    """Node flavour "flag": `__bool__` over a flag trait."""
    on = Bool

    def __bool__(self):
        return bool(self.__dict__.get("on", False))


class NNever(N):
    """Node flavour "never": constantly false."""

    def __bool__(self):
        return False


class NLenKids(N):
    """Node flavour "lenkids": `__len__` is the number of children in the list
    link `cs`; the ordinary container operations change the truth value."""

    def __len__(self):
        return len(self.__dict__.get("cs") or ())


NODE_CLASSES.update({"len": NLen, "flag": NFlag, "never": NNever, "lenkids": NLenKids})
# the "truth" stratum: node classes whose instances may be false.  Truth is a fact about
# the object's state, not about identity or reachability: no law changes.
TRUTH_FLAVOURS = ("len", "flag", "never", "lenkids")
TRUTH_SETTABLE = ("len", "flag")       # truth value set by an operation of its own


def set_truth(n, k, how="assign"):
    """Give a "len" / "flag" node the truth value bool(k)."""
    if isinstance(n, NLen):
        if how == "assign":
            n.bag = [1] * k
        else:
            if k == 0 and len(n.bag) % 2:
                n.bag.clear()
            else:
                del n.bag[:]
            n.bag.extend([1] * k)
    elif isinstance(n, NFlag):
        n.on = bool(k)


class Pool(dict):
    """serial -> node for one history, plus the node class and the log of
    dynamic defaults materialised so far."""

    def __init__(self, nf="plain"):
        dict.__init__(self)
        self.cls = NODE_CLASSES[nf]
        self.sink = []


ATTRS = ("c", "d", "cs", "cd", "ss")
KIND = {"c": "inst", "d": "inst", "cs": "list", "cd": "dict", "ss": "set"}
FINALS = ("v", "w")
KEYS = "pqrs"


def ser(n):
    return n.__dict__.get("ser", -1)


def enc(x):
    """Structural encoding of handler payloads (identity of nodes by serial)."""
    if isinstance(x, N):
        return "N%d" % ser(x)
    if x is None or isinstance(x, (bool, int, str)):
        return x
    if isinstance(x, TraitListEvent):
        return ("LE", repr(x.index), enc(x.removed), enc(x.added))
    if isinstance(x, TraitDictEvent):
        return ("DE", enc(x.removed), enc(x.added), enc(x.changed))
    if isinstance(x, TraitSetEvent):
        return ("SE", enc(x.removed), enc(x.added))
    if isinstance(x, list):
        return ("list",) + tuple(enc(i) for i in x)
    if isinstance(x, dict):
        return ("dict",) + tuple(sorted((str(k), enc(v)) for k, v in x.items()))
    if isinstance(x, (set, frozenset)):
        return ("set",) + tuple(sorted(str(enc(i)) for i in x))
    return "<%s>" % type(x).__name__


def kids(n, attr):
    """Direct children of n through attr; side-effect free (no default
    materialisation)."""
    val = n.__dict__.get(attr)
    if val is None:
        return []
    k = KIND[attr]
    if k == "inst":
        return [val]
    if k == "dict":
        return [val[key] for key in sorted(val)]
    if k == "set":
        return sorted(val, key=ser)
    return list(val)


def plain_copy(val):
    """Plain-Python copy of a link value, for value comparison."""
    if isinstance(val, list):
        return list(val)
    if isinstance(val, dict):
        return dict(val)
    if isinstance(val, (set, frozenset)):
        return set(val)
    return val


def all_kids(n):
    out = []
    for a in ATTRS:
        out.extend(kids(n, a))
    return out


def walk(n, acc=None, depth=0, depths=None):
    """All nodes of the subtree of n (pre-order) and their depths."""
    if acc is None:
        acc, depths = [], {}
    acc.append(n)
    depths[ser(n)] = depth
    for a in ATTRS:
        for x in kids(n, a):
            walk(x, acc, depth + 1, depths)
    return acc, depths


# --------------------------------------------------------------------------
# name pairs


class Pair:
    """links: list of (tuple_of_attrs, sep); finals: tuple of final names."""

    def __init__(self, links, finals):
        self.links = links
        self.finals = finals
        self.path = [alts for alts, _ in links]
        self.seps = [sep for _, sep in links]
        leg, obs, cls = [], [], []
        for alts, sep in links:
            if len(alts) == 1:
                a = alts[0]
                leg.append(a + sep)
                obs.append(a + sep + ("items" + sep if KIND[a] != "inst" else ""))
                cls.append(KIND[a] + sep)
            else:
                leg.append("[" + ",".join(alts) + "]" + sep)
                obs.append("[" + ",".join(a + (sep + "items" if KIND[a] != "inst" else "")
                                          for a in alts) + "]" + sep)
                cls.append("[" + ",".join(KIND[a] for a in alts) + "]" + sep)
        fin = finals[0] if len(finals) == 1 else "[" + ",".join(finals) + "]"
        self.legacy = "".join(leg) + fin
        self.observe = "".join(obs) + fin
        self.cls = "".join(cls) + fin       # whole name-pair class (signatures, counters)
        self.steps = cls                    # per-step class, e.g. "list." or "[inst,list]:"

    def desc(self):
        return {"legacy": self.legacy, "observe": self.observe}


def make_pairs():
    pairs = []
    singles = [("c",), ("cs",), ("cd",), ("ss",)]
    v = ("v",)
    for a in singles:
        for s in ".:":
            pairs.append(Pair([(a, s)], v))
    for a in singles:
        for b in singles:
            for s1 in ".:":
                for s2 in ".:":
                    pairs.append(Pair([(a, s1), (b, s2)], v))
    groups = [("c", "d"), ("c", "cs"), ("cs", "cd"), ("cd", "ss"), ("c", "cs", "ss")]
    for g in groups:
        for s in ".:":
            pairs.append(Pair([(g, s)], v))
    for s in ".:":
        pairs.append(Pair([(("c",), s)], ("v", "w")))
        pairs.append(Pair([(("cs",), s)], ("v", "w")))
        pairs.append(Pair([(("c", "d"), s), (("cs",), ".")], v))
        pairs.append(Pair([(("cs",), "."), (("c", "d"), s)], v))
        pairs.append(Pair([(("cd",), s), (("c", "cs"), s)], ("v", "w")))
    d3 = [
        [("c", "."), ("c", "."), ("c", ".")],
        [("c", ":"), ("c", ":"), ("c", ":")],
        [("cs", "."), ("c", "."), ("cs", ".")],
        [("c", ":"), ("cs", ":"), ("cd", ":")],
        [("cd", "."), ("ss", "."), ("c", ".")],
        [("cs", "."), ("cs", ":"), ("cs", ".")],
        [("c", "."), ("cd", ":"), ("c", ".")],
        [("ss", ":"), ("c", "."), ("cd", ".")],
        [("cs", ":"), ("cd", "."), ("ss", ":")],
        [("c", "."), ("c", ":"), ("cs", ".")],
    ]
    for spec in d3:
        pairs.append(Pair([((a,), s) for a, s in spec], v))
    return pairs


def make_deep_pairs():
    """Thorough tier only: every depth-3 combination of link kinds, the
    separator pattern rotating over '...', ':::', '.:.', ':.:'."""
    pairs = []
    have = {p.legacy for p in make_pairs()}
    pats = ("...", ":::", ".:.", ":.:")
    singles = ("c", "cs", "cd", "ss")
    n = 0
    for a in singles:
        for b in singles:
            for c in singles:
                pat = pats[n % 4]
                n += 1
                p = Pair([((a,), pat[0]), ((b,), pat[1]), ((c,), pat[2])], ("v",))
                if p.legacy not in have:
                    pairs.append(p)
    return pairs


PAIRS = make_pairs()
DEEP_PAIRS = make_deep_pairs()


def _dst_dot(pairs):
    return [p for p in pairs
            if p.seps[0] == "." and all(KIND[a] == "inst" for a in p.path[0])]


DST_DOT_PAIRS = _dst_dot(PAIRS)
DST_DOT_DEEP_PAIRS = _dst_dot(DEEP_PAIRS)

# --------------------------------------------------------------------------
# recorders


class Rec:
    """The three voices plus the two exception channels."""

    def __init__(self):
        self.L = []      # legacy 4-argument calls
        self.Z = [0]     # legacy 0-argument call count
        self.O = []      # observe trait-change events
        self.C = []      # observe container events
        # further legacy signatures ("sigs" stratum): handler(new), handler(name, new),
        # handler(object, name, new)
        self.V = {1: [], 2: [], 3: []}
        # further owner objects whose bound methods are registered under the
        # same names on the same root ("multi" stratum); None once dropped
        self.followers = []

    def clear(self):
        del self.L[:]
        self.Z[0] = 0
        del self.O[:]
        del self.C[:]
        for v in self.V.values():
            del v[:]
        for f in self.followers:
            if f is not None:
                f.clear()

    def live_followers(self):
        return [f for f in self.followers if f is not None]

    # bound-method flavour
    def m4(self, obj, name, old, new):
        self.L.append((enc(obj), name, enc(old), enc(new)))

    def m0(self):
        self.Z[0] += 1

    def m1(self, new):
        self.V[1].append(enc(new))

    def m2(self, name, new):
        self.V[2].append((name, enc(new)))

    def m3(self, obj, name, new):
        self.V[3].append((enc(obj), name, enc(new)))

    def any_calls(self):
        return bool(self.L or self.Z[0] or self.O or self.C
                    or self.V[1] or self.V[2] or self.V[3])

    def extra_handlers(self, flavour):
        """The 1-, 2- and 3-argument legacy handlers."""
        if flavour == "method":
            return self.m1, self.m2, self.m3
        V = self.V

        def f1(new):
            V[1].append(enc(new))

        def f2(name, new):
            V[2].append((name, enc(new)))

        def f3(obj, name, new):
            V[3].append((enc(obj), name, enc(new)))
        return f1, f2, f3

    def mo(self, event):
        if isinstance(event, TraitChangeEvent):
            self.O.append((enc(event.object), event.name, enc(event.old), enc(event.new)))
        else:
            self.C.append((type(event).__name__, enc(getattr(event, "removed", None)),
                           enc(getattr(event, "added", None))))

    def handlers(self, flavour):
        if flavour == "method":
            return self.m4, self.m0, self.mo
        L, Z, mo = self.L, self.Z, self.mo

        def f4(obj, name, old, new):
            L.append((enc(obj), name, enc(old), enc(new)))

        def f0():
            Z[0] += 1

        def fo(event):
            mo(event)
        return f4, f0, fo


EXC = []     # (channel, exception class name) captured by the pushed handlers
_installed = [False]


def install_exception_channels():
    if _installed[0]:
        return
    import sys

    def legacy_exc(obj, name, old, new):
        EXC.append(("legacy", type(sys.exc_info()[1]).__name__, repr(sys.exc_info()[1])[:200]))

    def obs_exc(event):
        EXC.append(("observe", type(sys.exc_info()[1]).__name__, repr(sys.exc_info()[1])[:200]))
    push_exception_handler(handler=legacy_exc, reraise_exceptions=False, main=True)
    obs_push_exception_handler(handler=obs_exc, reraise_exceptions=False)
    _installed[0] = True


# --------------------------------------------------------------------------
# tree specs (literal, JSON-able): {"s": serial, "c": spec|None, "cs": [spec], "cd": {k: spec}, ...}
# a missing key means "never assigned" (the default is not materialised).


def gen_spec(rng, counter, pair, depth, budget, nf="plain"):
    """Random subtree whose root will sit at `depth` below the observed root.
    nf: node flavour ("plain", "eq": tags, "dyn": dynamic defaults)."""
    spec = {"s": next(counter)}
    if nf in ("eq", "eqd") and rng.random() < 0.2:
        spec["t"] = 1            # most nodes share tag 0: replacements are mostly equal
    if nf in TRUTH_SETTABLE:
        spec["b"] = rng.choice((0, 0, 1, 2))      # initial size / flag: half are false
    k = len(pair.path)
    if depth > k or budget[0] <= 0:
        return spec
    hot = pair.path[depth] if depth < k else ()
    for a in ATTRS:
        p = 0.8 if a in hot else (0.10 if depth < k else 0.05)
        dynp = 0.0
        if nf == "dyn":
            # leave the link unassigned and unread; its default creates children
            dynp = 0.45 if a in hot else 0.04
            p *= 0.5
        r = rng.random()
        if r >= p:
            if r > 0.93:
                # explicitly assigned empty value
                spec[a] = None if KIND[a] == "inst" else ({} if KIND[a] == "dict" else [])
            elif dynp and rng.random() < dynp:
                sub = {}
                _fill(sub, a, a in hot, rng, counter, pair, depth, budget, nf)
                spec.setdefault("dyn", {})[a] = sub[a]
            continue
        _fill(spec, a, a in hot, rng, counter, pair, depth, budget, nf)
    return spec


def _fill(spec, a, is_hot, rng, counter, pair, depth, budget, nf):
    if KIND[a] == "inst":
        budget[0] -= 1
        spec[a] = gen_spec(rng, counter, pair, depth + 1, budget, nf)
    else:
        n = rng.choice((1, 1, 2, 2, 3)) if is_hot else 1
        budget[0] -= n
        if KIND[a] == "dict":
            keys = rng.sample(KEYS, n)
            spec[a] = {key: gen_spec(rng, counter, pair, depth + 1, budget, nf)
                       for key in sorted(keys)}
        else:
            spec[a] = [gen_spec(rng, counter, pair, depth + 1, budget, nf) for _ in range(n)]


def build(spec, pool):
    n = pool.cls(ser=spec["s"])
    if "t" in spec:
        n.tag = spec["t"]
    if "dyn" in spec:
        n.dyn = (pool, spec["dyn"], pool.sink)
    if spec.get("b"):
        set_truth(n, spec["b"])
    pool[spec["s"]] = n
    for a in ATTRS:
        if a in spec:
            assign_link(n, a, spec[a], pool)
    return n


def assign_link(n, a, val, pool):
    """n.a = the value described by the literal val (fresh objects)."""
    k = KIND[a]
    if k == "inst":
        setattr(n, a, None if val is None else build(val, pool))
    elif k == "dict":
        setattr(n, a, {key: build(s, pool) for key, s in val.items()})
    elif k == "set":
        setattr(n, a, {build(s, pool) for s in val})
    else:
        setattr(n, a, [build(s, pool) for s in val])


# "early" registration modes: the legacy handlers are methods of the observed root
# itself, registered by the @on_trait_change decorator while the object is constructed
# (both post_init flavours), before any link has a value.
_DECO_ROOTS = {}


def deco_root_class(base, legacy, post_init):
    key = (base, legacy, post_init)
    cls = _DECO_ROOTS.get(key)
    if cls is None:
        class DecoRoot(base):
            @on_trait_change(legacy, post_init=post_init)
            def _c16_h4(self, obj, name, old, new):
                r = self.__dict__.get("_c16_rec")
                if r is not None:
                    r.m4(obj, name, old, new)

            @on_trait_change(legacy, post_init=post_init)
            def _c16_h0(self):
                r = self.__dict__.get("_c16_rec")
                if r is not None:
                    r.m0()
        _DECO_ROOTS[key] = cls = DecoRoot
    return cls


# --------------------------------------------------------------------------
# one history


class Holder:
    """Stands for "the owner" of a stale (replaced) container object, so that
    the container operations and `kids` can be applied to it unchanged."""

    def __init__(self, attr, obj):
        setattr(self, attr, obj)


class Violation(Exception):
    def __init__(self, key, msg):
        Exception.__init__(self, key)
        self.key, self.msg = key, msg


class History:
    """State of one history: the tree, the registrations, the judge.

    With `ctx` None the history runs silently (used by the shrinker): nothing
    is counted, the first oracle failure is raised as Violation all the same.
    """

    def __init__(self, ctx, pair, flavour, root_spec):
        self.ctx = ctx
        self.pair = pair
        # flavour = "<handler flavour>+<node flavour>", e.g. "fn+plain", "method+eq"
        self.flavour = flavour
        #   optional further parts: "+deferred" / "+deco-pre" / "+deco-post" (early
        #   registration mode), "+sigs" (1-/2-/3-argument legacy voices as well)
        parts = flavour.split("+")
        hf = parts[0]
        nf = parts[1] if len(parts) > 1 else ""
        opts = set(parts[2:])
        self.nf = nf or "plain"
        # registration mode of the legacy 4-/0-argument handlers:
        #   "call"      root.on_trait_change(h, name) on the fully built tree
        #   "deferred"  root.on_trait_change(h, name, deferred=True) on the bare root,
        #               the links of the root are assigned afterwards
        #   "deco-pre" / "deco-post"  methods of the root decorated with
        #               @on_trait_change(name, post_init=False/True); links assigned afterwards
        #   "deferred-late"  deferred=True on the fully built tree (a stratum of its own:
        #               known finding late-deferred/observe-only)
        self.reg_mode = ([m for m in ("deferred-late", "deferred", "deco-pre", "deco-post")
                          if m in opts] or ["call"])[0]
        # the early registration is still to be made
        self.early_pending = self.reg_mode not in ("call", "deferred-late")
        self.early_live = False     # the latest registration is (was) the early one
        self.late_pending = self.reg_mode == "deferred-late"
        self.late_live = False      # the latest registration is (was) the late deferred one
        # "sigs": the remaining documented legacy signatures are registered as well
        self.sigs = "sigs" in opts
        alts0, sep0 = pair.links[0]
        # handler(new) / handler(name, new) are by design incompatible with a change of a
        # first '.' link that has no unique destination (container links: TraitError on
        # every change, no re-hooking); they are registered where they are supported
        self.dst_ok = self.sigs and (sep0 == ":" or all(KIND[a] == "inst" for a in alts0))
        self.dst_cleared_now = False   # the last operation set the first '.' link to None
        # "multi<k>-<fn|method>": k further owner objects register their bound
        # methods under the same names; they are dropped (collected) mid-history
        self.n_extra = 0
        if hf.startswith("multi"):
            self.n_extra = int(hf[5])
            hf = hf.split("-")[1]
        self.drops = 0                # owners dropped while registered
        self.pool_at_drop = None      # serials existing at the last such drop
        self.pool = Pool(self.nf)
        self.rec = Rec()
        self.h4, self.h0, self.ho = self.rec.handlers(hf)
        self.h1, self.h2, self.h3 = self.rec.extra_handlers(hf)
        if self.reg_mode in ("call", "deferred-late"):
            self.root = build(root_spec, self.pool)
            self.root_links = {}
        else:
            # bare root first; its links (assigned or dynamic-default ones alike) are
            # assigned once the early registration stands
            rc = self.pool.cls
            if self.reg_mode != "deferred":
                rc = deco_root_class(rc, pair.legacy, self.reg_mode == "deco-post")
            self.root = rc(ser=root_spec["s"])
            if "t" in root_spec:
                self.root.tag = root_spec["t"]
            if root_spec.get("b"):
                set_truth(self.root, root_spec["b"])
            self.pool[root_spec["s"]] = self.root
            self.root_links = dict(root_spec.get("dyn", {}))
            self.root_links.update({a: root_spec[a] for a in ATTRS if a in root_spec})
            if self.reg_mode != "deferred":
                self.root.__dict__["_c16_rec"] = self.rec
                self.h4, self.h0 = self.root._c16_h4, self.root._c16_h0
        self.rec.followers = [Rec() for _ in range(self.n_extra)]
        # nodes created by a dynamic default that the hook-up of one of the
        # systems (not a read by the harness) materialised
        self.dyn_hook_nodes = set()
        self.sink_seen = 0
        self.registered = False
        self.was_removed = False
        self.detached_roots = []      # nodes without any referrer
        self.recent = []              # recently detached nodes, oldest first
        self.fresh_detached = []      # nodes detached by the last operation
        self.reinserted = set()       # serials of re-inserted subtree nodes
        self.ever_final = set()       # serials of nodes both voices were once called for
        # stale containers: container objects that were the value of owner.attr
        # until an assignment replaced them; the caller kept a reference.
        # Nothing below a stale container is reachable.  id -> dict
        self.stale = {}
        self.last_stale = None
        self.nops = 0
        # "truth" stratum: nodes that may be false (state-dependent or constant)
        self.truth = self.nf in TRUTH_FLAVOURS
        self.first_truth = {}         # serial -> truth value when first called for (hooked)
        # serial -> (a node of the detached subtree on the path down to this one was false
        #            when the subtree was detached, link kind of the detaching step,
        #            the node itself was false then)
        self.detach_info = {}
        self.falsy_at_remove = {}     # serial (final level at removal) -> (chain, self) false
        # structural class of the last operation ("assign@list.", "item@offpath-dict", ...):
        # the name-pair class used in mechanism keys is the class of the path
        # step the operation acted on, not the whole name (one defect, few keys)
        self.trigger = "register"

    # -- counting helpers (silent when shrinking) ---------------------------
    def count(self, name, n=1):
        if self.ctx is not None:
            self.ctx.count(name, n)

    def ev(self):
        if self.ctx is not None:
            self.ctx.ev()

    def sig(self, *parts):
        if self.ctx is not None:
            self.ctx.sig(self.pair.cls, *parts)

    # -- registration --------------------------------------------------------
    def register(self):
        del EXC[:]
        early = self.early_pending
        self.early_pending = False
        self.early_live = early
        try:
            if early:
                # the registration precedes the values of the root's links
                if self.reg_mode == "deferred":
                    self.root.on_trait_change(self.h4, self.pair.legacy, deferred=True)
                    self.root.on_trait_change(self.h0, self.pair.legacy, deferred=True)
                # (decorator modes: registered while the root was constructed)
                self.root.observe(self.ho, self.pair.observe)
                for a in ATTRS:
                    if a in self.root_links:
                        assign_link(self.root, a, self.root_links[a], self.pool)
                self.count("early_registrations_" + self.reg_mode)
            else:
                kw = {}
                if self.late_pending:
                    kw["deferred"] = True
                    self.count("late_deferred_registrations")
                self.late_live, self.late_pending = self.late_pending, False
                self.root.on_trait_change(self.h4, self.pair.legacy, **kw)
                self.root.on_trait_change(self.h0, self.pair.legacy, **kw)
                self.root.observe(self.ho, self.pair.observe)
            for f in self.rec.live_followers():
                # bound methods are held weakly by both systems; none is kept here
                self.root.on_trait_change(f.m4, self.pair.legacy)
                self.root.on_trait_change(f.m0, self.pair.legacy)
                self.root.observe(f.mo, self.pair.observe)
            if self.sigs:
                self.root.on_trait_change(self.h3, self.pair.legacy)
                if self.dst_ok:
                    self.root.on_trait_change(self.h1, self.pair.legacy)
                    self.root.on_trait_change(self.h2, self.pair.legacy)
        except Exception as e:
            raise Violation("register/raised/%s" % type(e).__name__,
                            "registration of %r raised %r" % (self.pair.desc(), e))
        self.registered = True
        self.falsy_at_remove = {}
        self.absorb_defaults()
        self.check_exc("register")
        self.rec.clear()

    def unregister(self):
        del EXC[:]
        if self.truth:
            self.falsy_at_remove = self.falsy_chain()
        try:
            self.root.on_trait_change(self.h4, self.pair.legacy, remove=True)
            self.root.on_trait_change(self.h0, self.pair.legacy, remove=True)
            self.root.observe(self.ho, self.pair.observe, remove=True)
            for f in self.rec.live_followers():
                self.root.on_trait_change(f.m4, self.pair.legacy, remove=True)
                self.root.on_trait_change(f.m0, self.pair.legacy, remove=True)
                self.root.observe(f.mo, self.pair.observe, remove=True)
            if self.sigs:
                self.root.on_trait_change(self.h3, self.pair.legacy, remove=True)
                if self.dst_ok:
                    self.root.on_trait_change(self.h1, self.pair.legacy, remove=True)
                    self.root.on_trait_change(self.h2, self.pair.legacy, remove=True)
        except Exception as e:
            raise Violation("remove/raised/%s" % type(e).__name__,
                            "removal of %r raised %r" % (self.pair.desc(), e))
        self.registered = False
        self.was_removed = True
        self.check_exc("remove")
        self.check_silent("during-removal")
        self.rec.clear()

    def check_exc(self, opclass):
        if EXC:
            ch, name, text = EXC[0]
            del EXC[:]
            raise Violation("exception/%s/%s/%s" % (ch, name, opclass),
                            "exception captured in the %s notification machinery during %s: %s"
                            % (ch, opclass, text))

    # -- model ---------------------------------------------------------------
    def levels(self):
        lv = [[self.root]]
        for alts in self.pair.path:
            nxt = []
            for n in lv[-1]:
                for a in alts:
                    nxt.extend(kids(n, a))
            lv.append(nxt)
        return lv

    def level_of(self):
        """serial -> level index for nodes on the path."""
        out = {}
        for i, nodes in enumerate(self.levels()):
            for n in nodes:
                out[ser(n)] = i
        return out

    # -- truth values ("truth" stratum) ----------------------------------------------
    def falsy_chain(self):
        """serial -> (some object on the path from the root down to this one is
        false right now, this one is) for the nodes on the final level."""
        cur = [(self.root, not bool(self.root))]
        for alts in self.pair.path:
            nxt = []
            for n, f in cur:
                for a in alts:
                    nxt.extend((x, f or not bool(x)) for x in kids(n, a))
            cur = nxt
        return {ser(n): (f, not bool(n)) for n, f in cur}

    def mark_detached(self, x, level, kind):
        """x (path level `level`, None: off the path) has just lost its referrer:
        note the truth values along the path through its subtree."""
        k = len(self.pair.path)
        stack = [(x, level, False)]
        while stack:
            n, lvl, anc = stack.pop()
            me = lvl is not None and not bool(n)
            chain = anc or me
            self.detach_info.setdefault(ser(n), (chain, kind, me))
            for a in ATTRS:
                onp = lvl is not None and lvl < k and a in self.pair.path[lvl]
                for y in kids(n, a):
                    stack.append((y, lvl + 1 if onp else None, chain))

    def apply_truth(self, op):
        """("truth", serial, k, how): give a node the truth value bool(k) by changing
        a trait of it that is on no name.  Nobody is to be called; reachability, hence
        every law, is what it was."""
        m = self.pool.get(op[1])
        if m is None or self.nf not in TRUTH_SETTABLE:
            return False
        nodes, _ = walk(self.root)
        attached = {ser(n) for n in nodes}
        lv = self.level_of()
        s = ser(m)
        on_path = s in attached and s in lv
        was = bool(m)
        r = self.rec
        r.clear()
        del EXC[:]
        self.trigger = "truth-flip"
        try:
            set_truth(m, op[2], op[3])
        except Exception as e:
            raise Violation("raised/%s/truth-flip" % type(e).__name__,
                            "operation %r raised %r" % (op, e))
        self.nops += 1
        self.check_exc("truth-flip")
        self.recent.extend(self.fresh_detached)
        self.fresh_detached = []
        self.recent = self.recent[-24:]
        self.ev()
        what = "[%s <-> %s] op %r on %r (truth value %s -> %s, %s)" % (
            self.pair.legacy, self.pair.observe, op, m, was, bool(m),
            "level %s" % lv.get(s) if on_path else
            ("off-path" if s in attached else "detached"))
        if not self.registered:
            self.check_silent(what)
        elif r.any_calls():
            who = ("legacy4" if r.L else "legacy0" if r.Z[0] else
                   "observe" if (r.O or r.C) else "legacy-sigs")
            raise Violation("truth-flip/reported-by-%s" % who,
                            "%s: calls legacy4 %r legacy0 %d observe %r"
                            % (what, r.L[:3], r.Z[0], (r.O + r.C)[:3]))
        self.count("truth_ops_silent")
        if on_path and self.registered and was != bool(m):
            self.count("truth_flips_onpath")
            self.sig("truth-flip", lv.get(s) == len(self.pair.path), bool(m), op[3])
        self.probe_phase()
        return True

    # -- several handler owners ("multi" stratum) ----------------------------------
    def drop_owner(self, j):
        """Forget the j-th further owner: its bound-method handlers die with it
        (weakly held by both systems).  The other owners' registrations, made
        under the same names on the same root, must be unaffected."""
        fs = self.rec.followers
        if not 0 <= j < len(fs) or fs[j] is None:
            return False
        wr = weakref.ref(fs[j])
        del EXC[:]
        self.rec.clear()
        fs[j] = None
        if wr() is not None:
            gc.collect()
        if wr() is not None:
            self.count("multi_drop_not_collected")
            return True
        self.trigger = "drop-owner"
        self.check_exc("drop-owner")
        what = "[%s <-> %s] handler owner #%d dropped and collected" % (
            self.pair.legacy, self.pair.observe, j)
        r = self.rec
        if r.any_calls():
            raise Violation("multi/calls-on-drop", "%s: calls %r" % (what, (r.L + r.O + r.C)[:3]))
        if self.registered:
            self.drops += 1
            self.pool_at_drop = set(self.pool)
            self.count("multi_owner_drops")
        self.probe_phase()
        return True

    def check_followers(self, what):
        """Every live further owner must have logged exactly what the primary
        owner logged (same names, same root)."""
        r = self.rec
        for j, f in enumerate(r.followers):
            if f is None:
                continue
            if f.L != r.L:
                which, a, b = "legacy4", f.L, r.L
            elif f.Z[0] != r.Z[0]:
                which, a, b = "legacy0", f.Z[0], r.Z[0]
            elif f.O != r.O or f.C != r.C:
                which, a, b = "observe", f.O + f.C, r.O + r.C
            else:
                if r.L or r.O:
                    self.count("multi_follower_agree_nonempty")
                continue
            raise Violation("multi/owner-logs-differ-%s/%s" % (which, self.trigger),
                            "%s: owner #%d logged %r, the primary owner %r (same names, same "
                            "root)" % (what, j, a, b))

    # -- dynamic defaults ------------------------------------------------------
    def absorb_defaults(self, target=None):
        """Account for the dynamic defaults materialised since the last call.
        target: (serial, attr) the harness itself read, if any."""
        sink = self.pool.sink
        while self.sink_seen < len(sink):
            owner, attr, made = sink[self.sink_seen]
            self.sink_seen += 1
            if not made:
                continue
            if (owner, attr) != target:
                self.count("dyn_defaults_by_hookup")
                for x in made:
                    self.dyn_hook_nodes.update(ser(y) for y in walk(x)[0])
            else:
                self.count("dyn_defaults_by_harness_read")

    # -- stale containers -----------------------------------------------------
    def stale_members(self, e):
        return kids(Holder(e["attr"], e["obj"]), e["attr"])

    def held(self):
        """Serials of the direct members of stale containers: still referenced
        from there, hence not re-insertable elsewhere (tree shape)."""
        out = set()
        for e in self.stale.values():
            out.update(ser(x) for x in self.stale_members(e))
        return out

    def stale_hot(self, e, lv, attached):
        """Level of the former owner if owner.attr is on the path right now
        (had the container not been replaced its members would be reachable)."""
        i = lv.get(e["owner"]) if e["owner"] in attached else None
        if i is not None and i < len(self.pair.path) and e["attr"] in self.pair.path[i]:
            return i
        return None

    def stale_would_be_final(self, lv, attached):
        """Serials of nodes that would sit on the final level if the stale
        containers were still the values of their traits."""
        out = set()
        k = len(self.pair.path)
        for e in self.stale.values():
            i = self.stale_hot(e, lv, attached)
            if i is None:
                continue
            cur = self.stale_members(e)
            for j in range(i + 1, k):
                nxt = []
                for n in cur:
                    for a in self.pair.path[j]:
                        nxt.extend(kids(n, a))
                cur = nxt
            out.update(ser(n) for n in cur)
        return out

    # -- judging ---------------------------------------------------------------
    def split(self):
        r = self.rec
        Lf = [x for x in r.L if x[1] in FINALS]
        Ll = [x for x in r.L if x[1] in ATTRS]
        Li = [x for x in r.L if x[1].endswith("_items")]
        Lx = [x for x in r.L if x[1] not in FINALS and x[1] not in ATTRS
              and not x[1].endswith("_items")]
        Of = [x for x in r.O if x[1] in FINALS]
        Ol = [x for x in r.O if x[1] in ATTRS]
        Ox = [x for x in r.O if x[1] not in FINALS and x[1] not in ATTRS]
        return Lf, Ll, Li, Lx, Of, Ol, Ox

    def compare(self, klass, Lc, Oc, expected, what, kc=None):
        """legacy4 == observe == model (model may be None: differential only).
        Returns True when matched; raises Violation otherwise."""
        kc = kc or self.trigger
        if Lc != Oc:
            if len(Lc) > len(Oc):
                how = "legacy-only"
            elif len(Lc) < len(Oc):
                how = "observe-only"
            else:
                how = "payload-differs"
            raise Violation("%s/%s/%s" % (klass, how, kc),
                            "%s: legacy4 calls %r, observe events %r, model expects %r"
                            % (what, Lc, Oc, expected))
        if expected is not None and Lc != expected:
            raise Violation("%s/model-mismatch/%s" % (klass, kc),
                            "%s: legacy4 and observe agree on %r but the reachability model expects "
                            "%r" % (what, Lc, expected))
        return True

    def check_silent(self, what):
        for f in self.rec.live_followers():
            self._check_silent(f, what + " (further owner)")
        self._check_silent(self.rec, what)

    def _check_silent(self, r, what):
        if r.L:
            raise Violation("after-remove/legacy4", "%s: legacy 4-argument handler called after "
                            "removal: %r (%s)" % (what, r.L[:3], self.pair.legacy))
        if r.Z[0]:
            raise Violation("after-remove/legacy0", "%s: legacy 0-argument handler called %d times "
                            "after removal (%s)" % (what, r.Z[0], self.pair.legacy))
        if r.O or r.C:
            raise Violation("after-remove/observe", "%s: observe handler called after removal: %r "
                            "(%s)" % (what, (r.O + r.C)[:3], self.pair.observe))
        for arity in (1, 2, 3):
            if r.V[arity]:
                raise Violation("after-remove/legacy%d" % arity,
                                "%s: legacy %d-argument handler called after removal: %r (%s)"
                                % (what, arity, r.V[arity][:3], self.pair.legacy))

    # -- probes -----------------------------------------------------------------
    def probe_phase(self):
        nodes, _ = walk(self.root)
        lv = self.level_of()
        k = len(self.pair.path)
        attached = {ser(n) for n in nodes}
        # every node detached by the last operation (capped), plus a few
        # detached earlier
        extra, seen = [], set()
        below_stale = []
        for sid, e in self.stale.items():
            sub = []
            for x in self.stale_members(e):
                sub.extend(walk(x)[0])
            below_stale.extend(sub[:12] if sid == self.last_stale else sub[:3])
        for n in self.fresh_detached[:16] + self.recent[-5:] + below_stale[-24:]:
            if ser(n) not in attached and ser(n) not in seen:
                seen.add(ser(n))
                extra.append(n)
        wb_final = self.stale_would_be_final(lv, attached) if self.stale else ()
        r = self.rec
        for n in nodes + extra:
            s = ser(n)
            is_att = s in attached
            on_final = is_att and lv.get(s) == k
            fields = ["v"]
            if "w" in self.pair.finals or s % 4 == 0:
                fields.append("w")
            for f in fields:
                r.clear()
                del EXC[:]
                old = getattr(n, f)
                try:
                    setattr(n, f, old + 1)
                except Exception as e:
                    raise Violation("raised/%s/probe" % type(e).__name__,
                                    "probe %r.%s += 1 raised %r" % (n, f, e))
                self.check_exc("probe")
                self.ev()
                what = "[%s <-> %s] after %s: probe %r.%s: %d -> %d (%s)" % (
                    self.pair.legacy, self.pair.observe, self.trigger, n, f, old, old + 1,
                    "attached, level %s" % lv.get(s, "off-path") if is_att else "detached")
                if not self.registered:
                    self.check_silent(what)
                    if self.was_removed:
                        self.count("after_remove_probes_silent")
                        if on_final and f in self.pair.finals:
                            self.count("after_remove_nonvacuous_silent")
                            if self.drops:
                                self.count("multi_after_remove_nonvacuous_silent")
                            if self.early_live:
                                self.count("early_after_remove_nonvacuous_silent")
                                if KIND[self.pair.path[0][0]] in ("list", "set"):
                                    self.count("early_seq_after_remove_nonvacuous_silent")
                                self.sig("probe-after-remove-early", f, self.reg_mode)
                            if self.sigs:
                                self.count("sigs_after_remove_nonvacuous_silent")
                            self.sig("probe-after-remove", f)
                        far = self.falsy_at_remove.get(s) if f in self.pair.finals else None
                        if far is not None and far[0]:
                            # hooked when the registration was removed, below (or itself)
                            # an object that was false at that moment
                            self.count("truth_falsy_after_remove_nonvacuous_silent")
                            if far[1] and self.first_truth.get(s):
                                self.count("truth_turned_falsy_after_remove_silent")
                            self.sig("probe-after-remove-falsy", f, far[1], is_att)
                        if s in self.dyn_hook_nodes and s in self.ever_final \
                                and f in self.pair.finals:
                            self.count("dyn_after_remove_nonvacuous_silent")
                        if not is_att and s in wb_final and f in self.pair.finals:
                            self.count("after_remove_stale_nonvacuous_silent")
                    continue
                expected = ([(enc(n), f, old, old + 1)]
                            if on_final and f in self.pair.finals else [])
                Lf, Ll, Li, Lx, Of, Ol, Ox = self.split()
                if self.n_extra:
                    self.check_followers(what)
                self.compare("final", Lf, Of, expected, what)
                if r.Z[0] != len(expected):
                    raise Violation("final/legacy0-count/%s" % self.trigger,
                                    "%s: legacy 0-argument handler called %d times, legacy4/observe/"
                                    "model %d (%s)" % (what, r.Z[0], len(expected), self.pair.legacy))
                if Ll or Li or Lx or Ol or Ox or r.C:
                    raise Violation("final/stray-calls/%s" % self.trigger,
                                    "%s: calls for other names: legacy4 %r observe %r"
                                    % (what, Ll + Li + Lx, Ol + Ox + r.C))
                if self.sigs:
                    self.judge_sigs_probe(expected, what, is_att, s, f)
                if expected:
                    if self.late_live:
                        self.count("late_deferred_nonempty_matched")
                    if self.early_live:
                        self.count("early_nonempty_matched")
                        self.sig("probe-early", f, self.reg_mode, s in self.reinserted)
                    if self.drops:
                        self.count("multi_post_drop_nonempty_matched")
                        if s not in self.pool_at_drop:
                            # an object hooked after an owner was collected
                            self.count("multi_post_drop_new_nonempty_matched")
                            self.sig("probe-after-owner-drop", f, len(self.rec.live_followers()))
                    self.ever_final.add(s)
                    if self.truth:
                        if s not in self.first_truth:
                            self.first_truth[s] = bool(n)
                        if not n:
                            # a false object is hooked like any other
                            self.count("truth_falsy_nonempty_matched")
                            self.sig("probe-falsy", f, "called")
                    if s in self.dyn_hook_nodes:
                        self.count("dyn_nonempty_matched")
                        self.sig("probe-dyn-default", f)
                    self.count("final_nonempty_matched")
                    self.count("nonempty:" + self.pair.cls)
                    if s in self.reinserted:
                        self.count("reinsert_nonempty_matched")
                    self.sig("probe", f, "called", s in self.reinserted)
                else:
                    self.count("final_empty_matched")
                    if not is_att:
                        self.count("detached_probe_silent")
                        if s in self.ever_final and f in self.pair.finals:
                            # was called for while attached, silent now
                            self.count("detached_nonvacuous_silent")
                            if self.early_live:
                                self.count("early_detached_nonvacuous_silent")
                            if s in self.dyn_hook_nodes:
                                self.count("dyn_detached_nonvacuous_silent")
                            self.sig("probe-detached", f, self.trigger)
                            di = self.detach_info.get(s) if self.truth else None
                            if di is not None and di[0]:
                                # detached while it (or an object above it in the detached
                                # subtree) was false
                                self.count("truth_falsy_detached_nonvacuous_silent")
                                self.count("truth_falsy_detached_silent:" + di[1])
                                if di[2] and self.first_truth.get(s):
                                    # true when hooked, false when detached
                                    self.count("truth_turned_falsy_detached_silent")
                                self.sig("probe-falsy-detached", f, di[1], di[2])
                        if s in wb_final and f in self.pair.finals:
                            # only reachable through a replaced container whose
                            # former owner.attr is on the path: silent
                            self.count("stale_nonvacuous_silent")
                            self.sig("probe-below-stale", f, self.trigger)
        r.clear()

    # -- the 1-, 2- and 3-argument legacy signatures ("sigs" stratum) ---------------
    def judge_sigs_probe(self, expected, what, is_att, s, f):
        """A probe: every signature is called iff the 4-argument one is (which the
        caller has already matched with observe and the model), with its own
        projection of (object, name, old, new)."""
        r = self.rec
        want = {3: [(o, n, nw) for o, n, _, nw in expected]}
        if self.dst_ok:
            want[1] = [nw for _, _, _, nw in expected]
            want[2] = [(n, nw) for _, n, _, nw in expected]
        for arity in sorted(want):
            got = r.V[arity]
            if got != want[arity]:
                how = ("legacy%d-only" % arity if len(got) > len(want[arity]) else
                       "legacy%d-missing" % arity if len(got) < len(want[arity]) else
                       "legacy%d-payload" % arity)
                raise Violation("final/%s/%s" % (how, self.trigger),
                                "%s: legacy %d-argument handler calls %r, legacy4/observe/model "
                                "%r (%s)" % (what, arity, got, expected, self.pair.legacy))
        if expected:
            self.count("sigs_final_nonempty_matched")
            if self.dst_ok:
                self.count("dst_final_nonempty_matched")
                if self.pair.seps[0] == ".":
                    self.count("dst_dot_final_nonempty_matched")
            self.sig("probe-sigs", f, "called", self.dst_ok, self.pair.seps[0])
        elif not is_att and s in self.ever_final and f in self.pair.finals:
            self.count("sigs_detached_nonvacuous_silent")
            if self.dst_ok:
                self.count("dst_detached_nonvacuous_silent")
                if self.dst_cleared_now:
                    # detached by `root.link = None` on the first '.' link
                    self.count("dst_cleared_detached_nonvacuous_silent")
                self.sig("probe-sigs-detached", f, self.trigger, self.pair.seps[0])

    def dst_link0(self, on_path, i, sep, mode, attr):
        """Is this operation an assignment to the first '.' link while the
        handler(new) / handler(name, new) voices stand?"""
        return (self.dst_ok and self.registered and on_path and i == 0 and sep == "."
                and mode == "assign" and KIND[attr] == "inst")

    def tolerate_dst_errors(self):
        """`root.link = value` on the first '.' link: when the new value offers no
        unique final destination (None, a container further down, several finals)
        the 1-/2-argument voices answer with a logged TraitError each, by
        design; anything beyond these two stays in the channel."""
        left = 2
        for e in list(EXC):
            if left and e[0] == "legacy" and e[1] == "TraitError":
                EXC.remove(e)
                left -= 1
                self.count("dst_no_destination_errors")

    def judge_sigs_op(self, what, step, z, link0):
        r = self.rec
        want3 = [(o, n, nw) for o, n, _, nw in r.L]
        if r.V[3] != want3:
            raise Violation("sig/legacy3-differs-from-legacy4/%s" % step,
                            "%s: legacy 3-argument handler calls %r, 4-argument %r"
                            % (what, r.V[3], r.L))
        if r.L:
            self.count("sigs_op_reports_matched")
        if not self.dst_ok:
            return
        for arity in (1, 2):
            n = len(r.V[arity])
            if link0:
                # reported by a call for the new destination, or by the logged error
                bad = n > 1
            else:
                # deeper links and items: same machinery as the 0-argument voice
                bad = n != z
            if bad:
                raise Violation("sig/legacy%d-count/%s" % (arity, step),
                                "%s: legacy %d-argument handler called %d times %r, 0-argument "
                                "%d times" % (what, arity, n, r.V[arity][:3], z))
        if z and not link0:
            self.count("dst_op_reports_matched")

    # -- operations ---------------------------------------------------------------
    def apply(self, op):
        """Execute one literal operation and judge it.  Returns False when the
        operation is not applicable to the current state (shrinker replays)."""
        name = op[0]
        self.dst_cleared_now = False
        if name == "unregister":
            if not self.registered:
                return False
            self.trigger = "unregister"
            self.unregister()
            self.probe_phase()
            return True
        if name == "register":
            if self.registered:
                return False
            self.trigger = "register"
            self.register()
            self.probe_phase()
            return True
        if name == "stale":
            return self.apply_stale(op)
        if name == "drop_owner":
            return self.drop_owner(op[1])
        if name == "truth":
            return self.apply_truth(op)
        m = self.pool.get(op[1])
        if m is None:
            return False
        thunk = self.prepare(m, op)
        if thunk is None:
            return False
        attr, mode, fn = thunk
        # pre-state facts used by the judge
        nodes, _ = walk(self.root)
        attached = {ser(n) for n in nodes}
        lv = self.level_of()
        s = ser(m)
        i = lv.get(s) if s in attached else None
        k = len(self.pair.path)
        on_path = i is not None and i < k and attr in self.pair.path[i]
        sep = self.pair.seps[i] if on_path else None
        pos = ("on-path" + sep) if on_path else ("off-path" if s in attached else "detached")
        step = self.pair.steps[i] if on_path else (
            ("offpath-" if s in attached else "detached-") + KIND[attr])
        before = kids(m, attr)
        before_ids = [ser(x) for x in before]
        old_obj = m.__dict__.get(attr)
        # never assigned nor read so far (possible on the root of an early registration:
        # neither system reads a link it is not yet interested in)
        unmaterialised = attr not in m.__dict__
        old_enc = enc(old_obj) if mode != "item" else None
        old_copy = plain_copy(old_obj) if mode != "item" else None
        r = self.rec
        r.clear()
        del EXC[:]
        opclass = "%s-%s" % (KIND[attr], mode)
        self.trigger = "%s@%s" % (mode, step)
        try:
            fn()
        except Exception as e:
            raise Violation("raised/%s/%s" % (type(e).__name__, opclass),
                            "operation %r raised %r" % (op, e))
        self.nops += 1
        self.absorb_defaults((s, attr))
        link0 = self.dst_link0(on_path, i, sep, mode, attr)
        self.dst_cleared_now = False
        if link0:
            self.tolerate_dst_errors()
            self.count("dst_link0_assignments")
            if old_obj is not None and m.__dict__.get(attr) is None:
                self.dst_cleared_now = True
                self.count("dst_link0_cleared")
        self.check_exc(opclass)
        # a distinct object that compares equal to the one it replaces (node
        # flavour "eq"; trivially, an empty container replacing an empty one)
        new_obj = m.__dict__.get(attr)
        same_value = equal_repl = False
        if mode != "item" and new_obj is not old_obj and old_obj is not None \
                and new_obj is not None:
            try:
                same_value = bool(old_copy == plain_copy(new_obj))
            except Exception:
                same_value = False
            equal_repl = same_value and (KIND[attr] == "inst" or len(new_obj) > 0)
        if equal_repl:
            # a value-equal DICT replacement gets one class whatever the step
            # (open finding: _register_dict hooks handle_dict with the
            # equality-filtering dispatch); list/set/instance keep the step class
            self.trigger = "assign-equal@%s" % ("dict" if KIND[attr] == "dict" else step)
            if on_path:
                self.count("eq_equal_replacements_onpath")
                if KIND[attr] == "dict":
                    self.count("eqd_patterns_drawn")
        if (name == "assign" and len(op) > 4 and op[4] is not None and old_obj is not None
                and m.__dict__.get(attr) is not old_obj):
            # the caller keeps a reference to the replaced container object
            self.stale[op[4]] = {"obj": old_obj, "owner": s, "attr": attr}
            self.count("stale_containers_kept")
        after = kids(m, attr)
        after_ids = [ser(x) for x in after]
        # bookkeeping of detached subtrees
        gone = [x for x in before if ser(x) not in set(after_ids)]
        self.recent.extend(self.fresh_detached)
        self.fresh_detached = []
        for x in gone:
            self.detached_roots.append(x)
            sub, _ = walk(x)              # pre-order: the subtree root first
            self.fresh_detached.extend(sub)
            if self.truth:
                self.mark_detached(x, i + 1 if on_path else None,
                                   "group" if on_path and len(self.pair.path[i]) > 1
                                   else KIND[attr])
        came = [x for x in after if ser(x) not in set(before_ids)]
        for x in came:
            sub, _ = walk(x)
            if self.truth:
                for y in sub:
                    self.detach_info.pop(ser(y), None)
            if any(x is dr for dr in self.detached_roots):
                self.detached_roots = [dr for dr in self.detached_roots if dr is not x]
                self.reinserted.update(ser(y) for y in sub)
            if s not in attached:
                # inserted below a detached node: detached as well, probe it
                self.fresh_detached.extend(sub)
        self.recent = self.recent[-24:]
        self.ev()
        what = "[%s <-> %s] op %r on %r (%s)" % (self.pair.legacy, self.pair.observe, op, m, pos)
        if not self.registered:
            self.check_silent(what)
            if self.was_removed:
                self.count("after_remove_ops_silent")
            self.probe_phase()
            return True
        Lf, Ll, Li, Lx, Of, Ol, Ox = self.split()
        if self.n_extra:
            self.check_followers(what)
        z = r.Z[0]
        nC = len(r.C)
        # (1) no operation of the alphabet changes a final attribute
        self.compare("final", Lf, Of, [], what)
        if self.sigs:
            self.judge_sigs_op(what, step, z, link0)
        if Lx or Ox:
            raise Violation("link/stray-calls/%s" % step,
                            "%s: calls for unexpected names: legacy4 %r observe %r" % (what, Lx, Ox))
        if mode != "item":
            # (2) trait-link reassignment
            new_val = m.__dict__.get(attr)
            new_enc = enc(new_val)
            if KIND[attr] == "inst":
                changed = old_enc != new_enc
            else:
                changed = before_ids != after_ids
            # a distinct but equal value (both empty; value-equal nodes): not a
            # change under the equality comparison mode, neither system
            # reports it; only agreement is demanded
            undecided = same_value
            if undecided and on_path and sep == ".":
                expected = None
            elif on_path and sep == "." and changed:
                expected = [(enc(m), attr, old_enc, new_enc)]
                if unmaterialised and KIND[attr] != "inst" and len(Ll) == 1:
                    # the old value is the default materialised by the assignment
                    # itself: whatever (empty) value both systems agree on
                    expected = [(enc(m), attr, Ll[0][2], new_enc)]
            else:
                expected = []
            self.compare("link", Ll, Ol, expected, what, step)
            if z != len(Ll):
                raise Violation("link/legacy0-count/%s" % step,
                                "%s: legacy 0-argument handler called %d times, legacy4 %r"
                                % (what, z, Ll))
            if Li or nC:
                raise Violation("link/stray-item-events/%s" % step,
                                "%s: item-level reports on a plain assignment: legacy4 %r observe %r"
                                % (what, Li, r.C))
            if Ll:
                self.count("link_reported_matched")
                self.sig(opclass, pos, "reported", bool(gone), bool(came))
            elif equal_repl and on_path:
                self.count("link_equal_silent_matched")
                self.sig(opclass, pos, "equal-silent", bool(gone), bool(came))
            elif on_path and sep == ":" and changed:
                self.count("link_colon_silent_matched")
                self.sig(opclass, pos, "silent", bool(gone), bool(came))
            else:
                self.count("link_offpath_silent_matched")
        else:
            # (3) item-level mutation of a container
            self.compare("link", Ll, Ol, [], what, step)
            membership_changed = sorted(before_ids) != sorted(after_ids)
            if on_path and sep == ".":
                if bool(z) != bool(nC):
                    raise Violation("item/%s/%s" % ("legacy0-only" if z else "observe-only", step),
                                    "%s: legacy 0-argument handler called %d times, observe "
                                    "delivered %d container events %r" % (what, z, nC, r.C[:2]))
                if membership_changed and not z:
                    raise Violation("item/both-silent/%s" % step,
                                    "%s: members %r -> %r, yet neither legacy0 nor observe reported"
                                    % (what, before_ids, after_ids))
                if z:
                    self.count("item_dot_matched")
                    self.sig(opclass, op[2] if len(op) > 2 else "", pos, "reported",
                             bool(gone), bool(came), min(len(Li), 2))
                else:
                    self.count("item_dot_noop_matched")
            else:
                if z or nC or Li:
                    who = "legacy0" if z else ("observe" if nC else "legacy4")
                    raise Violation("item/reported-by-%s/%s" % (who, step),
                                    "%s: legacy0 %d calls, legacy4 %r, observe container events %r"
                                    % (what, z, Li, r.C[:2]))
                if on_path and membership_changed:
                    self.count("item_colon_silent_matched")
                    self.sig(opclass, op[2] if len(op) > 2 else "", pos, "silent",
                             bool(gone), bool(came))
                else:
                    self.count("item_offpath_silent_matched")
        self.probe_phase()
        return True

    def apply_stale(self, op):
        """("stale", id, method, args...): mutate a replaced container object.
        The container is not the value of any trait, so nothing in it is
        reachable along the name: every voice must stay silent, now and for
        the leaves of the objects in it (probe phase)."""
        e = self.stale.get(op[1])
        if e is None:
            return False
        attr = e["attr"]
        holder = Holder(attr, e["obj"])
        thunk = self.prepare(holder, (KIND[attr], None) + tuple(op[2:]), allow_reinsert=False)
        if thunk is None:
            return False
        fn = thunk[2]
        nodes, _ = walk(self.root)
        attached = {ser(n) for n in nodes}
        lv = self.level_of()
        i = self.stale_hot(e, lv, attached)
        before = kids(holder, attr)
        before_ids = [ser(x) for x in before]
        r = self.rec
        r.clear()
        del EXC[:]
        step = "stale-" + KIND[attr]
        opclass = "stale-%s-item" % KIND[attr]
        self.trigger = "item@" + step
        try:
            fn()
        except Exception as exc:
            raise Violation("raised/%s/%s" % (type(exc).__name__, opclass),
                            "operation %r raised %r" % (op, exc))
        self.nops += 1
        self.dst_cleared_now = False
        self.absorb_defaults()
        self.check_exc(opclass)
        self.last_stale = op[1]
        after = kids(holder, attr)
        after_ids = [ser(x) for x in after]
        self.recent.extend(self.fresh_detached)
        self.fresh_detached = []
        for x in before:
            if ser(x) not in after_ids:
                # no referrer left: a free detached subtree
                if not any(x is dr for dr in self.detached_roots):
                    self.detached_roots.append(x)
                self.fresh_detached.extend(walk(x)[0])
        self.recent = self.recent[-24:]
        self.ev()
        pos = "stale, former owner %s" % ("off-path/detached" if i is None
                                          else "on-path" + self.pair.seps[i])
        what = "[%s <-> %s] op %r on the replaced %s container of N%d.%s (%s)" % (
            self.pair.legacy, self.pair.observe, op, KIND[attr], e["owner"], attr, pos)
        if not self.registered:
            self.check_silent(what)
            if self.was_removed:
                self.count("after_remove_ops_silent")
            self.probe_phase()
            return True
        Lf, Ll, Li, Lx, Of, Ol, Ox = self.split()
        if self.n_extra:
            self.check_followers(what)
        self.compare("final", Lf, Of, [], what)
        self.compare("link", Ll + Lx, Ol + Ox, [], what, step)
        z, nC = r.Z[0], len(r.C)
        for arity in (1, 2, 3):
            if r.V[arity]:
                raise Violation("item/reported-by-legacy%d/%s" % (arity, step),
                                "%s: legacy %d-argument handler calls %r"
                                % (what, arity, r.V[arity][:3]))
        if z or nC or Li:
            who = "legacy0" if z else ("observe" if nC else "legacy4")
            raise Violation("item/reported-by-%s/%s" % (who, step),
                            "%s: legacy0 %d calls, legacy4 %r, observe container events %r"
                            % (what, z, Li, r.C[:2]))
        self.count("stale_ops_silent")
        if i is not None and sorted(before_ids) != sorted(after_ids):
            self.count("stale_hot_ops_silent")
            self.sig(opclass, op[2], "on-path" + self.pair.seps[i],
                     len(after_ids) > len(before_ids))
        self.probe_phase()
        return True

    def prepare(self, m, op, allow_reinsert=True):
        """(attr, mode, thunk) for a literal op, or None when inapplicable.
        mode: 'assign' (trait assignment) or 'item' (container mutation)."""
        name = op[0]
        pool = self.pool

        def fresh(spec):
            if spec["s"] in pool:        # serials are unique per history
                return None
            return build(spec, pool)

        used = set()
        held = self.held() if self.stale else ()

        def det(s):
            # a detached root may be re-inserted at one place only, and not
            # while a stale container still refers to it
            if s in used or s in held or not allow_reinsert:
                return None
            for dr in self.detached_roots:
                if ser(dr) == s and dr is not m and not self.in_subtree(m, dr):
                    used.add(s)
                    return dr
            return None

        def value(x):
            """x is a spec (fresh subtree) or ('R', serial) (detached root)."""
            if isinstance(x, (list, tuple)) and len(x) == 2 and x[0] == "R":
                return det(x[1])
            return fresh(x)

        if name == "inst":
            _, _, attr, x = op
            if x is None:
                return attr, "assign", lambda: setattr(m, attr, None)
            val = value(x)
            if val is None:
                return None
            return attr, "assign", lambda: setattr(m, attr, val)
        if name == "assign":
            attr, xs = op[2], op[3]
            if KIND[attr] == "dict":
                vals = {key: value(x) for key, x in xs.items()}
                if any(v is None for v in vals.values()):
                    return None
                return attr, "assign", lambda: setattr(m, attr, vals)
            vals = [value(x) for x in xs]
            if any(v is None for v in vals):
                return None
            if KIND[attr] == "set":
                return attr, "assign", lambda: setattr(m, attr, set(vals))
            return attr, "assign", lambda: setattr(m, attr, vals)
        if name == "list":
            _, _, meth = op[:3]
            args = op[3:]
            cur = m.__dict__.get("cs")
            n = len(cur) if cur is not None else 0
            if meth in ("append", "insert", "setitem"):
                val = value(args[-1])
                if val is None:
                    return None
                if meth == "append":
                    return "cs", "item", lambda: m.cs.append(val)
                idx = args[0]
                if meth == "insert":
                    if not 0 <= idx <= n:
                        return None
                    return "cs", "item", lambda: m.cs.insert(idx, val)
                if not 0 <= idx < n:
                    return None
                return "cs", "item", lambda: m.cs.__setitem__(idx, val)
            if meth in ("extend", "iadd"):
                vals = [value(x) for x in args[0]]
                if any(v is None for v in vals):
                    return None
                if meth == "extend":
                    return "cs", "item", lambda: m.cs.extend(vals)
                return "cs", "item", lambda: m.cs.__iadd__(vals)
            if meth in ("pop", "delitem", "remove"):
                idx = args[0]
                if not 0 <= idx < n:
                    return None
                if meth == "pop":
                    return "cs", "item", lambda: m.cs.pop(idx)
                if meth == "delitem":
                    return "cs", "item", lambda: m.cs.__delitem__(idx)
                return "cs", "item", lambda: m.cs.remove(m.cs[idx])
            if meth == "slice_set":
                a, b, st = args[0]
                vals = [value(x) for x in args[1]]
                if any(v is None for v in vals):
                    return None
                sl = slice(a, b, st)
                if st not in (None, 1) and len(range(n)[sl]) != len(vals):
                    return None
                return "cs", "item", lambda: m.cs.__setitem__(sl, vals)
            if meth == "slice_del":
                a, b, st = args[0]
                return "cs", "item", lambda: m.cs.__delitem__(slice(a, b, st))
            if meth == "clear":
                return "cs", "item", lambda: m.cs.clear()
            if meth == "reverse":
                return "cs", "item", lambda: m.cs.reverse()
            if meth == "sort":
                return "cs", "item", lambda: m.cs.sort(key=lambda x: -ser(x))
            raise AssertionError(op)
        if name == "dict":
            _, _, meth = op[:3]
            args = op[3:]
            cur = m.__dict__.get("cd")
            keys = set(cur) if cur is not None else set()
            if meth in ("setitem", "setdefault"):
                key = args[0]
                val = value(args[1])
                if val is None:
                    return None
                if meth == "setitem":
                    return "cd", "item", lambda: m.cd.__setitem__(key, val)
                return "cd", "item", lambda: m.cd.setdefault(key, val)
            if meth in ("delitem", "pop"):
                key = args[0]
                if key not in keys:
                    return None
                if meth == "delitem":
                    return "cd", "item", lambda: m.cd.__delitem__(key)
                return "cd", "item", lambda: m.cd.pop(key)
            if meth == "popitem":
                if not keys:
                    return None
                return "cd", "item", lambda: m.cd.popitem()
            if meth == "clear":
                return "cd", "item", lambda: m.cd.clear()
            if meth in ("update", "ior"):
                vals = {key: value(x) for key, x in args[0].items()}
                if any(v is None for v in vals.values()):
                    return None
                if meth == "update":
                    return "cd", "item", lambda: m.cd.update(vals)
                return "cd", "item", lambda: m.cd.__ior__(vals)
            raise AssertionError(op)
        if name == "set":
            _, _, meth = op[:3]
            args = op[3:]
            cur = m.__dict__.get("ss")
            members = {ser(x): x for x in cur} if cur is not None else {}
            if meth == "add":
                val = value(args[0])
                if val is None:
                    return None
                return "ss", "item", lambda: m.ss.add(val)
            if meth in ("remove", "discard"):
                x = members.get(args[0])
                if x is None:
                    if meth == "remove":
                        return None
                    x = N(ser=-5)       # absent element: discard is a no-op
                if meth == "remove":
                    return "ss", "item", lambda: m.ss.remove(x)
                return "ss", "item", lambda: m.ss.discard(x)
            if meth == "pop":
                if not members:
                    return None
                return "ss", "item", lambda: m.ss.pop()
            if meth == "clear":
                return "ss", "item", lambda: m.ss.clear()
            if meth in ("update", "ior"):
                vals = [value(x) for x in args[0]]
                if any(v is None for v in vals):
                    return None
                if meth == "update":
                    return "ss", "item", lambda: m.ss.update(vals)
                return "ss", "item", lambda: m.ss.__ior__(set(vals))
            if meth in ("difference_update", "isub", "intersection_update", "iand"):
                sel = {members[s] for s in args[0] if s in members}
                fnm = {"difference_update": "difference_update", "isub": "__isub__",
                       "intersection_update": "intersection_update", "iand": "__iand__"}[meth]
                return "ss", "item", lambda: getattr(m.ss, fnm)(sel)
            if meth in ("symmetric_difference_update", "ixor"):
                sel = {members[s] for s in args[0] if s in members}
                vals = [value(x) for x in args[1]]
                if any(v is None for v in vals):
                    return None
                other = sel | set(vals)
                if meth == "ixor":
                    return "ss", "item", lambda: m.ss.__ixor__(other)
                return "ss", "item", lambda: m.ss.symmetric_difference_update(other)
            raise AssertionError(op)
        raise AssertionError(op)

    @staticmethod
    def in_subtree(m, top):
        sub, _ = walk(top)
        return any(x is m for x in sub)

    # -- generation -----------------------------------------------------------------
    def gen_op(self, rng, counter):
        """Draw one applicable literal operation from the current state."""
        pair = self.pair
        nodes, depths = walk(self.root)
        lv = self.levels()
        k = len(pair.path)
        size = len(nodes)
        if self.stale and rng.random() < 0.16:
            op = self.gen_stale_op(rng, counter, nodes, depths)
            if op is not None:
                return op
        if self.nf in TRUTH_SETTABLE and rng.random() < 0.24:
            return self.gen_truth_op(rng, nodes, lv)
        r = rng.random()
        m = attr = None
        if r < 0.72:
            i = rng.randrange(k)
            # prefer deeper levels a little less: they exist less often
            if lv[i]:
                m = rng.choice(lv[i])
                attr = rng.choice(pair.path[i]) if rng.random() < 0.9 else rng.choice(ATTRS)
        elif r < 0.86 and (self.recent or self.fresh_detached):
            m = rng.choice(self.recent + self.fresh_detached)
            attr = rng.choice(ATTRS)
        if m is None:
            m = rng.choice(nodes)
            attr = rng.choice(ATTRS)
        # depth of the target below the root (detached nodes: pretend 1)
        dm = depths[ser(m)] if any(m is x for x in nodes) else 1
        budget = [3 if size > 30 else 6]
        used = set()
        held = self.held() if self.stale else ()

        def new():
            x = None
            if self.detached_roots and rng.random() < 0.12:
                cands = [dr for dr in self.detached_roots
                         if dr is not m and ser(dr) not in used and ser(dr) not in held
                         and not self.in_subtree(m, dr)]
                if cands:
                    x = ("R", ser(rng.choice(cands)))
                    used.add(x[1])
            if x is None:
                x = gen_spec(rng, counter, pair, dm + 1, budget, self.nf)
            return x

        s = ser(m)
        kind = KIND[attr]
        if kind == "inst":
            cur = m.__dict__.get(attr)
            if cur is not None and rng.random() < (0.4 if self.sigs else 0.25):
                return ("inst", s, attr, None)
            return ("inst", s, attr, new())
        eqf = self.nf in ("eq", "eqd")
        cur = m.__dict__.get(attr)
        if self.nf == "eqd" and kind == "dict" and cur and rng.random() < 0.75:
            # the stratum's pattern: same keys, fresh value-equal objects
            xs = {}
            for key in sorted(cur):
                x = gen_spec(rng, counter, pair, dm + 1, budget, self.nf)
                x.pop("t", None)
                if cur[key].__dict__.get("tag", 0):
                    x["t"] = 1
                xs[key] = x
            return ("assign", s, attr, xs, None)
        if rng.random() < 0.22:
            n = rng.choice((0, 0, 1, 1, 2, 3))
            if eqf and cur is not None and rng.random() < 0.5:
                n = min(len(cur), 3)     # same size: often a value-equal replacement
            # most of the time the caller keeps the container being replaced
            # (a stale alias, mutated later by "stale" operations)
            sid = next(counter) if (m.__dict__.get(attr) is not None
                                    and rng.random() < 0.7) else None
            if kind == "dict":
                xs = {key: new() for key in sorted(rng.sample(KEYS, n))}
                if self.nf == "eq" and cur and self.dict_would_equal(cur, xs):
                    # kept for the "eqd" stratum: make the replacement unequal
                    flip = [x for x in xs.values() if isinstance(x, dict)]
                    if flip:
                        flip[0]["t"] = 1 - flip[0].get("t", 0)
                    else:
                        xs = {}
                return ("assign", s, attr, xs, sid)
            return ("assign", s, attr, [new() for _ in range(n)], sid)
        if kind == "list":
            cur = m.__dict__.get("cs")
            n = len(cur) if cur is not None else 0
            meths = ["append", "insert", "extend", "iadd", "slice_set", "append"]
            if n:
                meths += ["pop", "delitem", "remove", "setitem", "slice_set", "slice_del", "pop",
                          "setitem"]
            if n and rng.random() < 0.08:
                meths = ["clear"]
            if n > 1 and rng.random() < 0.10:
                meths = ["reverse", "sort"]
            meth = rng.choice(meths)
            if meth == "append":
                return ("list", s, meth, new())
            if meth == "insert":
                return ("list", s, meth, rng.randint(0, n), new())
            if meth == "setitem":
                return ("list", s, meth, rng.randrange(n), new())
            if meth in ("extend", "iadd"):
                return ("list", s, meth, [new() for _ in range(rng.choice((0, 1, 2, 2)))])
            if meth in ("pop", "delitem", "remove"):
                return ("list", s, meth, rng.randrange(n))
            if meth == "slice_set":
                if n >= 2 and rng.random() < 0.3:
                    st = rng.choice((2, -1, -2))
                    sl = (None, None, st)
                    cnt = len(range(n)[slice(None, None, st)])
                    return ("list", s, meth, sl, [new() for _ in range(cnt)])
                a = rng.randint(0, n)
                b = rng.randint(a, n)
                return ("list", s, meth, (a, b, None), [new() for _ in range(rng.choice((0, 1, 1, 2)))])
            if meth == "slice_del":
                if rng.random() < 0.3:
                    return ("list", s, meth, (None, None, 2))
                a = rng.randint(0, n)
                return ("list", s, meth, (a, rng.randint(a, n), None))
            return ("list", s, meth)
        if kind == "dict":
            cur = m.__dict__.get("cd")
            keys = sorted(cur) if cur is not None else []
            meths = ["setitem", "setitem", "update", "ior", "setdefault"]
            if keys:
                meths += ["delitem", "pop", "popitem", "setitem", "delitem"]
            if keys and rng.random() < 0.08:
                meths = ["clear"]
            meth = rng.choice(meths)
            if meth == "setitem":
                # replace an existing key half of the time
                key = rng.choice(keys) if keys and rng.random() < 0.5 else rng.choice(KEYS)
                return ("dict", s, meth, key, new())
            if meth == "setdefault":
                return ("dict", s, meth, rng.choice(KEYS), new())
            if meth in ("delitem", "pop"):
                return ("dict", s, meth, rng.choice(keys))
            if meth in ("update", "ior"):
                ks = sorted(rng.sample(KEYS, rng.choice((0, 1, 2, 2))))
                return ("dict", s, meth, {key: new() for key in ks})
            return ("dict", s, meth)
        # set
        cur = m.__dict__.get("ss")
        mem = sorted(ser(x) for x in cur) if cur is not None else []
        meths = ["add", "add", "update", "ior", "symmetric_difference_update", "ixor", "discard"]
        if mem:
            meths += ["remove", "discard", "pop", "difference_update", "isub",
                      "intersection_update", "iand", "remove"]
        if mem and rng.random() < 0.08:
            meths = ["clear"]
        meth = rng.choice(meths)
        if meth == "add":
            return ("set", s, meth, new())
        if meth in ("remove",):
            return ("set", s, meth, rng.choice(mem))
        if meth == "discard":
            return ("set", s, meth, rng.choice(mem) if mem and rng.random() < 0.7 else -7)
        if meth in ("update", "ior"):
            return ("set", s, meth, [new() for _ in range(rng.choice((0, 1, 2)))])
        if meth in ("difference_update", "isub", "intersection_update", "iand"):
            sel = [x for x in mem if rng.random() < 0.5]
            return ("set", s, meth, sel)
        if meth in ("symmetric_difference_update", "ixor"):
            sel = [x for x in mem if rng.random() < 0.4]
            # value-equal nodes: a fresh object equal to a member would remove that
            # member by value (set algebra on foreign-but-equal objects is C07's)
            return ("set", s, meth, sel,
                    [] if eqf else [new() for _ in range(rng.choice((0, 1, 1, 2)))])
        return ("set", s, meth)


    def gen_truth_op(self, rng, nodes, lv):
        """Change the truth value of one node: mostly of an object on the path (the
        root included), mostly from true to false."""
        r = rng.random()
        onp = [n for level in lv for n in level]
        cands = onp if r < 0.85 else (self.recent + self.fresh_detached or nodes)
        if r >= 0.95:
            cands = nodes
        yes = [n for n in cands if n]
        no = [n for n in cands if not n]
        first, second = (yes, no) if rng.random() < 0.7 else (no, yes)
        m = rng.choice(first or second)
        k = 0 if m else rng.choice((1, 1, 2, 3))
        if rng.random() < 0.06:
            k = rng.choice((0, 1, 2))      # now and then a change that is no flip
        return ("truth", ser(m), k, rng.choice(("assign", "mutate")))

    def dict_would_equal(self, cur, xs):
        """Would assigning the literal values xs give a dict equal (by node
        value) to the current one?"""
        def tag_of(x):
            if isinstance(x, dict):
                return x.get("t", 0)
            n = self.pool.get(x[1])
            return n.__dict__.get("tag", 0) if n is not None else 0
        return ({k: v.__dict__.get("tag", 0) for k, v in cur.items()}
                == {k: tag_of(x) for k, x in xs.items()})

    def gen_stale_op(self, rng, counter, nodes, depths):
        """One mutation of a replaced container: mostly insertions of fresh
        subtrees, some removals."""
        pair = self.pair
        attached = {ser(n) for n in nodes}
        lv = self.level_of()
        sids = sorted(self.stale)
        hot = [sid for sid in sids if self.stale_hot(self.stale[sid], lv, attached) is not None]
        sid = rng.choice(hot) if hot and rng.random() < 0.85 else rng.choice(sids)
        e = self.stale[sid]
        i = self.stale_hot(e, lv, attached)
        depth = (i if i is not None else 0) + 1      # would-be depth of a member
        budget = [4]

        def new():
            return gen_spec(rng, counter, pair, depth, budget, self.nf)

        kind = KIND[e["attr"]]
        obj = e["obj"]
        n = len(obj)
        grow = rng.random() < 0.7 or n == 0
        if kind == "list":
            if grow:
                meth = rng.choice(("append", "insert", "extend", "iadd", "setitem", "slice_set"))
                if meth == "setitem" and not n:
                    meth = "append"
                if meth == "append":
                    return ("stale", sid, meth, new())
                if meth == "insert":
                    return ("stale", sid, meth, rng.randint(0, n), new())
                if meth == "setitem":
                    return ("stale", sid, meth, rng.randrange(n), new())
                if meth == "slice_set":
                    a = rng.randint(0, n)
                    return ("stale", sid, meth, (a, rng.randint(a, n), None),
                            [new() for _ in range(rng.choice((1, 1, 2)))])
                return ("stale", sid, meth, [new() for _ in range(rng.choice((1, 2)))])
            meth = rng.choice(("pop", "delitem", "remove", "clear", "reverse"))
            if meth in ("pop", "delitem", "remove"):
                return ("stale", sid, meth, rng.randrange(n))
            return ("stale", sid, meth)
        if kind == "dict":
            keys = sorted(obj)
            if grow:
                meth = rng.choice(("setitem", "setitem", "update", "ior", "setdefault"))
                if meth in ("setitem", "setdefault"):
                    key = rng.choice(keys) if keys and rng.random() < 0.4 else rng.choice(KEYS)
                    return ("stale", sid, meth, key, new())
                ks = sorted(rng.sample(KEYS, rng.choice((1, 2))))
                return ("stale", sid, meth, {key: new() for key in ks})
            meth = rng.choice(("delitem", "pop", "popitem", "clear"))
            if meth in ("delitem", "pop"):
                return ("stale", sid, meth, rng.choice(keys))
            return ("stale", sid, meth)
        mem = sorted(ser(x) for x in obj)
        if grow:
            meth = rng.choice(("add", "add", "update", "ior", "symmetric_difference_update"))
            if meth == "symmetric_difference_update" and self.nf in ("eq", "eqd"):
                meth = "add"
            if meth == "add":
                return ("stale", sid, meth, new())
            if meth == "symmetric_difference_update":
                return ("stale", sid, meth, [x for x in mem if rng.random() < 0.3],
                        [new() for _ in range(rng.choice((1, 2)))])
            return ("stale", sid, meth, [new() for _ in range(rng.choice((1, 2)))])
        meth = rng.choice(("remove", "discard", "pop", "clear", "difference_update"))
        if meth in ("remove", "discard"):
            return ("stale", sid, meth, rng.choice(mem))
        if meth == "difference_update":
            return ("stale", sid, meth, [x for x in mem if rng.random() < 0.5])
        return ("stale", sid, meth)


# --------------------------------------------------------------------------
def replay_ops(pair, flavour, root_spec, ops, register_first=True):
    """Silent re-execution of a literal op list (shrinker).  Returns the key of
    the first violation, or None."""
    try:
        h = History(None, pair, flavour, root_spec)
        if register_first:
            h.register()
            h.probe_phase()
        for op in ops:
            h.apply(op)
    except Violation as v:
        return v.key
    except Exception:
        return None
    return None


def shrink(pair, flavour, root_spec, ops, key, budget=120):
    """Greedy one-at-a-time deletion (ddmin with chunk size 1, then the root)."""
    ops = list(ops)
    tries = 0
    changed = True
    while changed and tries < budget:
        changed = False
        for i in range(len(ops) - 1, -1, -1):
            if tries >= budget:
                break
            cand = ops[:i] + ops[i + 1:]
            tries += 1
            if replay_ops(pair, flavour, root_spec, cand) == key:
                ops = cand
                changed = True
    # try to empty the root tree, one attribute at a time
    spec = dict(root_spec)
    for a in ATTRS:
        if a in spec and tries < budget + 10:
            cand = {x: y for x, y in spec.items() if x != a}
            tries += 1
            if replay_ops(pair, flavour, cand, ops) == key:
                spec = cand
    return spec, ops


def run_history(ctx, h_index, pairs, truth=False):
    rng = ctx.rng("hist", h_index)
    pair = pairs[h_index % len(pairs)]
    # node flavours; "eqd" is a small stratum of its own: it alone draws value-equal
    # whole-dict replacements (finding F44, fixed in the repository since; the pattern
    # keeps its stratum and its own key class so that a regression cannot truncate the
    # other histories)
    r = rng.random()
    nf = "plain" if r < 0.42 else ("eq" if r < 0.66 else ("dyn" if r < 0.95 else "eqd"))
    if truth:
        # "truth" stratum (histories of its own, appended to the others): node classes
        # whose instances may be false - by a __len__ over a list of their own or over
        # their list link, by a __bool__ over a flag trait, or constantly
        nf = ctx.rng("truth", h_index).choice(
            ("len", "len", "len", "flag", "flag", "flag", "never", "lenkids"))
        ctx.count("histories_truth")
    hf = "method" if rng.random() < 0.35 else "fn"
    # "multi" stratum: 1-2 further owner objects register bound methods under the same
    # names on the same root and are dropped (collected) while the registration stands
    n_extra = 0
    if rng.random() < 0.09:
        n_extra = rng.choice((1, 1, 2))
        hf = "multi%d-%s" % (n_extra, hf)
        ctx.count("histories_multi")
    flavour = hf + "+" + nf
    # strata of their own random stream (the other histories stay what they were):
    #  early registration - the legacy handlers are registered on the bare root, by the
    #    public deferred=True argument or by the @on_trait_change decorator (post_init
    #    False / True), and the root's links are assigned afterwards;
    #  sigs - the 1-, 2- and 3-argument legacy signatures are registered as well
    #  late deferred - deferred=True on the fully built tree: the members a List / Dict /
    #    Set first link has at that moment are never hooked (known finding), hence a
    #    stratum and a key of its own
    rng2 = ctx.rng("strata", h_index)
    x = rng2.random()
    late = False
    if n_extra == 0 and nf != "eqd":
        if x < 0.15:
            flavour += "+" + rng2.choice(("deferred", "deco-pre", "deco-post"))
            ctx.count("histories_early")
        elif x < 0.18 and nf != "dyn" and not truth:
            # (no unread dynamic defaults here: this registration reads nothing, the
            # harness would be the first reader)
            flavour += "+deferred-late"
            late = True
            ctx.count("histories_late_deferred")
    if rng2.random() < 0.16 and not late:
        flavour += "+sigs"
        ctx.count("histories_sigs")
        if rng2.random() < 0.4:
            # first link an Instance '.' link: the one the 1-/2-argument link handler serves
            pair = rng2.choice(DST_DOT_PAIRS if ctx.tier != "thorough"
                               else DST_DOT_PAIRS + DST_DOT_DEEP_PAIRS)
    counter = itertools.count(1)
    if rng.random() < 0.15 and nf != "dyn":
        root_spec = {"s": 0}
    else:
        root_spec = gen_spec(rng, itertools.chain([0], counter), pair, 0, [14], nf)
    ctx.count("histories_" + nf)
    nsteps = rng.randint(16, ctx.scale(20, 28))
    t_remove = rng.randint(nsteps * 5 // 10, nsteps - 2) if rng.random() < 0.9 else None
    rereg = t_remove is not None and rng.random() < 0.3
    drop_at = {}
    for j in range(n_extra):
        if rng.random() < 0.8:
            # early, so that link reassignments follow while still registered
            step = rng.randint(1, max(1, (t_remove or nsteps) * 6 // 10))
            while step in drop_at or step == t_remove:
                step += 1
            drop_at[step] = j
    ops = []
    h = None
    try:
        h = History(ctx, pair, flavour, root_spec)
        h.register()
        h.probe_phase()
        for step in range(nsteps):
            if step == t_remove:
                op = ("unregister",)
            elif rereg and step == t_remove + 2:
                op = ("register",)
            elif step in drop_at:
                op = ("drop_owner", drop_at[step])
            else:
                op = h.gen_op(rng, counter)
            ops.append(op)
            h.apply(op)
            ctx.count("history_ops")
    except Violation as v:
        spec2, ops2 = root_spec, ops
        # a failure after a handler owner was collected while the registration stood is
        # a class of its own (weakref-callback bookkeeping), whatever operation shows it
        key = v.key + ("+owner-dropped" if h is not None and h.drops else "")
        # so is one under (or after the removal of) a registration made before the
        # root's links had values
        key += "+early-reg" if h is not None and h.early_live else ""
        if h is not None and h.late_live:
            # known finding: what a container first link holds when a deferred=True
            # registration is made is never hooked - every manifestation is "observe
            # reports, legacy does not" (final attribute, link or item level)
            kp = v.key.split("/")
            key = ("late-deferred/observe-only" if len(kp) > 1 and kp[1] == "observe-only"
                   else key + "+late-deferred")
        if truth:
            # a failure on a graph of objects that may be false is a class of its own
            key += "+falsy-nodes"
        if ctx.viol_per_key.get(key, 0) < 2:
            try:
                spec2, ops2 = shrink(pair, flavour, root_spec, ops, v.key)
            except Exception:
                pass
        ctx.violation(key, v.msg + "  [shrunk history: flavour=%s root=%r ops=%r]"
                      % (flavour, spec2, ops2),
                      {"pair": pair.desc(), "pair_class": pair.cls, "flavour": flavour,
                       "root_spec": spec2, "ops": ops2, "unshrunk_ops": len(ops),
                       "complaint": v.msg})
    if h_index < 4 * ctx.nshards:
        ctx.sample({"pair": pair.desc(), "flavour": flavour, "root_spec": root_spec,
                    "ops": ops[:5]})


def run(ctx):
    install_exception_channels()
    pairs = PAIRS + (DEEP_PAIRS if ctx.tier == "thorough" else [])
    ctx.note("name_pairs", [p.legacy + " <-> " + p.observe for p in pairs])
    nh = ctx.scale(6000, 75000)
    for h in range(nh):
        if not ctx.mine(h):
            continue
        if not ctx.begin("h:%d" % h):
            continue
        try:
            run_history(ctx, h, pairs)
        finally:
            ctx.end()
    # the "truth" stratum: further histories (the ones above stay what they were)
    for h in range(nh, nh + ctx.scale(720, 9000)):
        if not ctx.mine(h):
            continue
        if not ctx.begin("h:%d" % h):
            continue
        try:
            run_history(ctx, h, pairs, truth=True)
        finally:
            ctx.end()
