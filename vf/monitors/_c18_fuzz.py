"""Random API programs with hostile ("chaos") callbacks for the C18 sanitizer runs.

A program = a generated HasTraits class family + a sequence of API operations.
Every user callback the harness hands to traits (validator functions, TraitType
subclasses, _x_default methods, default factories, property getters/setters,
post_setattr, change handlers of all three mechanisms) first calls
`CH.act(obj, name, kind)`, which - with a per-program probability - performs one
hostile action *during the C call that invoked the callback*: remove/re-add the
trait being processed, replace or clear the object's __dict__, add/remove
handlers on the notifier list being iterated, trigger gc, re-enter the API on
the same object, or raise.  Python exceptions are fine; only sanitizer reports,
aborts and signals (seen by the parent through the write-ahead log) count.
"""
import copy
import gc
import pickle
import sys

import numpy as np

from traits.api import (
    HasTraits, HasStrictTraits, HasPrivateTraits, Int, Float, Str, Bool, Complex, Bytes, Range,
    Enum, List, Dict, Set, Tuple, Either, Union, Instance, Any, Callable, Type, Event, Property,
    cached_property, DelegatesTo, PrototypedFrom, ReadOnly, Constant, Disallow, Python, Trait,
    TraitType, TraitError, CInt, CFloat, CStr, CBool, Map, PrefixList, PrefixMap, String,
    Array, ArrayOrNone, This, Date, Supports, AdaptsTo, BaseInt, BaseFloat, BaseStr,
    on_trait_change, observe, Undefined, Button, WeakRef, Module, Expression, File, UUID,
    push_exception_handler, pop_exception_handler,
)
from traits.ctrait import CTrait
from traits.observation import api as obsapi


class ChaosError(Exception):
    pass


class Chaos:
    """Global hostile-action source; reset per program."""

    def __init__(self):
        self.rng = None
        self.p = 0.0
        self.depth = 0
        self.actions = 0
        self.ticks = 0
        self.counts = {}
        self.enabled = False
        self.extra_handlers = []
        self.objects = []
        self.program_handlers = []
        self.fail_at = None      # raise at this tick (fault injection), exception class
        self.fail_exc = None

    def reset(self, rng, p, fail_at=None, fail_exc=None):
        self.rng, self.p = rng, p
        self.depth = 0
        self.ticks = 0
        self.enabled = True
        self.extra_handlers = []
        self.objects = []
        self.program_handlers = []
        self.fail_at, self.fail_exc = fail_at, fail_exc

    def count(self, k):
        self.counts[k] = self.counts.get(k, 0) + 1

    def act(self, obj, name, kind):
        if not self.enabled:
            return
        self.ticks += 1
        self.count("cb:" + kind)
        if self.fail_at is not None and self.ticks == self.fail_at:
            self.count("fault-injected")
            raise self.fail_exc("injected at tick %d in %s" % (self.ticks, kind))
        rng = self.rng
        if self.depth >= 3 or rng.random() >= self.p:
            return
        self.depth += 1
        self.actions += 1
        try:
            self._do(obj, name, kind, rng)
        finally:
            self.depth -= 1

    def _do(self, obj, name, kind, rng):
        a = rng.randrange(18)
        self.count("act:%d" % a)
        try:
            if a == 0:
                if isinstance(obj, HasTraits) and isinstance(name, str):
                    obj.remove_trait(name)
                    if rng.random() < 0.5:
                        gc.collect()
            elif a == 1:
                if isinstance(obj, HasTraits) and isinstance(name, str):
                    obj.add_trait(name, rng.choice([Int(), Str(), Any(), List(Int), Float(3.0)]))
            elif a == 2:
                if isinstance(obj, HasTraits):
                    obj.__dict__ = {}
                    gc.collect()
            elif a == 3:
                if isinstance(obj, HasTraits):
                    obj.__dict__.clear()
            elif a == 4:
                if isinstance(obj, HasTraits) and isinstance(name, str):
                    obj.__dict__.pop(name, None)
            elif a == 5:
                gc.collect()
            elif a == 6:
                if isinstance(obj, HasTraits):
                    h = make_handler(rng.randrange(5), "late")
                    self.extra_handlers.append(h)
                    obj.on_trait_change(h, name if isinstance(name, str) and rng.random() < 0.7 else "anytrait")
            elif a == 7:
                if isinstance(obj, HasTraits) and self.extra_handlers:
                    h = self.extra_handlers.pop(rng.randrange(len(self.extra_handlers)))
                    for nm in (name, "anytrait"):
                        try:
                            obj.on_trait_change(h, nm, remove=True)
                        except Exception:
                            pass
            elif a == 8:
                if isinstance(obj, HasTraits) and isinstance(name, str):
                    h = make_obs_handler("late")
                    try:
                        obj.observe(h, name)
                        self.extra_handlers.append(h)
                    except Exception:
                        pass
            elif a == 9:
                # re-enter: assign some trait of the same object
                if isinstance(obj, HasTraits):
                    names = [n for n in obj.trait_names() if not n.startswith("trait_")]
                    if names:
                        n2 = rng.choice(names)
                        try:
                            setattr(obj, n2, rng.choice(VALUE_POOL))
                        except ChaosError:
                            raise
                        except Exception:
                            pass
            elif a == 10:
                if isinstance(obj, HasTraits) and isinstance(name, str):
                    try:
                        getattr(obj, name)
                    except ChaosError:
                        raise
                    except Exception:
                        pass
            elif a == 11:
                raise rng.choice([ChaosError, TraitError, ValueError, AttributeError,
                                  RuntimeError, KeyError, TypeError])("chaos")
            elif a == 12:
                if isinstance(obj, HasTraits) and isinstance(name, str):
                    try:
                        delattr(obj, name)
                    except ChaosError:
                        raise
                    except Exception:
                        pass
            elif a == 13:
                # drop other objects of the program (delegates, partners) and collect
                if self.objects:
                    del self.objects[rng.randrange(len(self.objects))]
                    gc.collect()
            elif a == 14:
                if isinstance(obj, HasTraits):
                    try:
                        obj.trait_setq(**{name: rng.choice(VALUE_POOL)}) if isinstance(name, str) else None
                    except ChaosError:
                        raise
                    except Exception:
                        pass
            elif a == 15:
                # unregister every handler the program registered, while notifier
                # lists may be being iterated
                for (oo, h, what, k) in list(self.program_handlers):
                    try:
                        if k == "otc":
                            oo.on_trait_change(h, what, remove=True)
                        else:
                            oo.observe(h, what, remove=True)
                    except ChaosError:
                        raise
                    except Exception:
                        pass
                del self.program_handlers[:]
            elif a in (16, 17):
                # let go of objects that are only held through another object's attribute
                # (delegates, prototypes, partners, nested items): the C frame that is running
                # this callback may be working on one of them
                pool = [o for o in self.objects if isinstance(o, HasTraits)]
                if isinstance(obj, HasTraits):
                    pool.append(obj)
                rng.shuffle(pool)
                for o in pool[:3]:
                    for k, v in list(o.__dict__.items()):
                        if isinstance(v, HasTraits) and v is not obj:
                            if a == 16:
                                o.__dict__.pop(k, None)
                            else:
                                try:
                                    setattr(o, k, None)
                                except ChaosError:
                                    raise
                                except Exception:
                                    o.__dict__.pop(k, None)
                v = None
                if rng.random() < 0.5:
                    gc.collect()
        except RecursionError:
            pass


CH = Chaos()


# --- callbacks ------------------------------------------------------------
def make_handler(arity, tag):
    if arity == 0:
        def h():
            CH.act(None, None, "handler0")
    elif arity == 1:
        def h(new):
            CH.act(None, None, "handler1")
    elif arity == 2:
        def h(name, new):
            CH.act(None, name, "handler2")
    elif arity == 3:
        def h(obj, name, new):
            CH.act(obj, name, "handler3")
    else:
        def h(obj, name, old, new):
            CH.act(obj, name, "handler4")
    return h


def make_obs_handler(tag):
    def h(event):
        obj = getattr(event, "object", None)
        CH.act(obj if isinstance(obj, HasTraits) else None, getattr(event, "name", None), "observe")
    return h


def chaos_validator(obj, name, value):
    CH.act(obj, name, "validator")
    if value == "INVALID":
        raise TraitError("invalid")
    return value


class ChaosType(TraitType):
    default_value = 0

    def validate(self, obj, name, value):
        CH.act(obj, name, "TraitType.validate")
        if isinstance(value, str) and value == "INVALID":
            self.error(obj, name, value)
        return value

    def post_setattr(self, obj, name, value):
        CH.act(obj, name, "post_setattr")


class ChaosGetSetType(TraitType):
    def get(self, obj, name):
        CH.act(obj, name, "TraitType.get")
        return obj.__dict__.get("_" + name + "_store", 0)

    def set(self, obj, name, value):
        CH.act(obj, name, "TraitType.set")
        obj.__dict__["_" + name + "_store"] = value


def chaos_factory(*a, **k):
    CH.act(None, None, "factory")
    return [1, 2, 3]


class Tmp:
    pass


class HostileEq:
    def __eq__(self, other):
        CH.act(None, None, "__eq__")
        return False

    __hash__ = object.__hash__


class HostileIndex:
    def __index__(self):
        CH.act(None, None, "__index__")
        return 3


class HostileFloat:
    def __float__(self):
        CH.act(None, None, "__float__")
        return 0.5


class IntSub(int):
    pass


class TupleSub(tuple):
    pass


VALUE_POOL = [
    None, True, False, 0, 1, -1, 2 ** 31, 2 ** 63, 2 ** 64, 10 ** 30, 0.0, 1.5, float("nan"),
    float("inf"), 1e308, 1j, "", "a", "abc", "INVALID", "yes", b"x", (), (1,), (1, "a"),
    (1, 2, 3), [], [1], [1, "a"], ["INVALID"], {}, {"a": 1}, {1: "a"}, set(), {1, 2},
    frozenset([1]), IntSub(5), TupleSub((1, 2)), HostileEq(), HostileIndex(), HostileFloat(),
    np.int8(3), np.int64(7), np.float32(0.5), np.float64("nan"), np.bool_(True),
    np.array([1, 2, 3]), np.zeros((2, 2)), np.array(5), np.str_("a"), int, float, Tmp, Tmp(),
    len, (lambda x: x), Undefined, object(), range(3), sys, 2 ** 400,
]


# --- class generation -------------------------------------------------------
def _getter(attr):
    def _get(self):
        CH.act(self, attr, "property-getter")
        return self.__dict__.get("_pstore_" + attr, 0)
    return _get


def _setter(attr):
    def _set(self, value):
        CH.act(self, attr, "property-setter")
        self.__dict__["_pstore_" + attr] = value
    return _set


def _default(attr, value_fn):
    def _dflt(self):
        CH.act(self, attr, "default-method")
        return value_fn()
    return _dflt


def _static(attr, arity):
    if arity == 0:
        def f(self):
            CH.act(self, attr, "static0")
    elif arity == 1:
        def f(self, new):
            CH.act(self, attr, "static1")
    elif arity == 2:
        def f(self, old, new):
            CH.act(self, attr, "static2")
    elif arity == 3:
        def f(self, name, old, new):
            CH.act(self, attr, "static3")
    else:
        def f(self, obj, name, old, new):
            CH.act(self, attr, "static4")
    return f


_PSTORE = {}


def _fn_property(rng):
    """Property built from plain functions of every supported arity (getter 0-3 arguments,
    setter 0-3, validator 0-3): each arity has its own C entry point."""
    g = rng.randrange(4)
    st = rng.randrange(4)
    vd = rng.choice([None, 0, 1, 2, 3])
    getters = [lambda: (CH.act(None, None, "fget0"), _PSTORE.get("v", 0))[1],
               lambda obj: (CH.act(obj, None, "fget1"), _PSTORE.get("v", 0))[1],
               lambda obj, name: (CH.act(obj, name, "fget2"), _PSTORE.get("v", 0))[1],
               lambda obj, name, trait: (CH.act(obj, name, "fget3"), _PSTORE.get("v", 0))[1]]
    setters = [lambda: CH.act(None, None, "fset0"),
               lambda value: (CH.act(None, None, "fset1"), _PSTORE.__setitem__("v", value))[1],
               lambda obj, value: (CH.act(obj, None, "fset2"), _PSTORE.__setitem__("v", value))[1],
               lambda obj, name, value: (CH.act(obj, name, "fset3"), _PSTORE.__setitem__("v", value))[1]]

    def chk(value):
        if isinstance(value, str) and value == "INVALID":
            raise TraitError("invalid")
        return value
    validators = [lambda: (CH.act(None, None, "fval0"), 0)[1],
                  lambda value: (CH.act(None, None, "fval1"), chk(value))[1],
                  lambda obj, value: (CH.act(obj, None, "fval2"), chk(value))[1],
                  lambda obj, name, value: (CH.act(obj, name, "fval3"), chk(value))[1]]
    kw = {"fget": getters[g], "fset": setters[st]}
    if vd is not None:
        kw["fvalidate"] = validators[vd]
    return Property(**kw)


def trait_makers(rng, partner_cls):
    """name -> zero-arg constructor of a trait for a class body."""
    return [
        ("Int", lambda: Int(rng.choice([0, 5]))),
        ("Float", lambda: Float()),
        ("Str", lambda: Str("s")),
        ("Bool", lambda: Bool()),
        ("Complex", lambda: Complex()),
        ("Bytes", lambda: Bytes()),
        ("RangeI", lambda: Range(0, 10)),
        ("RangeF", lambda: Range(0.0, 1.0, exclude_high=rng.random() < 0.5)),
        ("RangeDyn", lambda: Range(low="lo_", high="hi_", value=1)),
        ("Enum", lambda: Enum("a", "abc", 1, None)),
        ("EnumDyn", lambda: Enum(values="choices_")),
        ("ListInt", lambda: List(Int)),
        ("ListBound", lambda: List(Int, [1, 2], minlen=1, maxlen=4)),
        ("ListList", lambda: List(List(Int))),
        ("ListInst", lambda: List(Instance(partner_cls))),
        ("DictStrInt", lambda: Dict(Str, Int)),
        ("DictStrList", lambda: Dict(Str, List(Int))),
        ("SetInt", lambda: Set(Int)),
        ("Tuple", lambda: Tuple(Int, Str)),
        ("TupleList", lambda: Tuple(List(Int), Int)),
        ("Either", lambda: Either(Int, Str, None)),
        ("Union", lambda: Union(Int, List(Int), None)),
        ("EitherRange", lambda: Either(Range(0.0, 1.0), Tuple(Int, Int), Enum("a", "b"))),
        ("Instance", lambda: Instance(partner_cls)),
        ("InstanceArgs", lambda: Instance(partner_cls, ())),
        ("InstanceStr", lambda: Instance("Partner0")),
        ("Any", lambda: Any()),
        ("AnyList", lambda: Any([])),
        ("AnyFactory", lambda: Any(factory=chaos_factory)),
        ("Callable", lambda: Callable()),
        ("Type", lambda: Type(Tmp)),
        ("Event", lambda: Event()),
        ("EventInt", lambda: Event(Int)),
        ("Button", lambda: Button()),
        ("ReadOnly", lambda: ReadOnly),
        ("Constant", lambda: Constant(7)),
        ("Python", lambda: Python),
        ("Disallow", lambda: Disallow),
        ("TraitFn", lambda: Trait(0, chaos_validator)),
        ("TraitCompound", lambda: Trait(0, chaos_validator, Str, None)),
        ("ChaosType", lambda: ChaosType()),
        ("ChaosGetSet", lambda: ChaosGetSetType()),
        ("CInt", lambda: CInt()),
        ("CFloat", lambda: CFloat()),
        ("CStr", lambda: CStr()),
        ("CBool", lambda: CBool()),
        ("Map", lambda: Map({"a": 1, "b": 2, 1: "x"})),
        ("PrefixList", lambda: PrefixList(["alpha", "beta", "abc"])),
        ("PrefixMap", lambda: PrefixMap({"alpha": 1, "beta": 2})),
        ("String", lambda: String(minlen=0, maxlen=5, regex="^[a-z]*$")),
        ("Array", lambda: Array(dtype=float, shape=(None,))),
        ("ArrayOrNone", lambda: ArrayOrNone()),
        ("This", lambda: This()),
        ("Date", lambda: Date()),
        ("WeakRef", lambda: WeakRef(partner_cls)),
        ("BaseInt", lambda: BaseInt()),
        ("BaseFloat", lambda: BaseFloat()),
        ("Expression", lambda: Expression()),
        ("Module", lambda: Module()),
        ("IntNone", lambda: Int(comparison_mode=rng.choice([0, 1, 2]))),
        ("AnyIdentity", lambda: Any(comparison_mode=1)),
        ("Supports", lambda: Supports(partner_cls)),
        ("InstanceInt", lambda: Instance(int)),
        ("InstanceIntNN", lambda: Instance(int, allow_none=False)),
        ("PropertyFn", lambda: _fn_property(rng)),
        ("PropertyFn2", lambda: _fn_property(rng)),
        ("PropertyRW", "PROPERTY_RW"),
        ("PropertyInt", "PROPERTY_INT"),
        ("PropertyCached", "PROPERTY_CACHED"),
        ("PropertyObs", "PROPERTY_OBS"),
        ("Delegate", "DELEGATE"),
        ("DelegatePrefix", "DELEGATE_PREFIX"),
        ("Prototype", "PROTOTYPE"),
    ]


def gen_classes(rng, tag):
    """Return (PartnerCls, MainCls, names)."""
    pbody = {
        "px": Int(1), "py": Str("p"), "pl": List(Int), "pre_q": Int(4), "pany": Any(),
        "choices_": List([1, 2, 3]), "lo_": Int(0), "hi_": Int(5),
    }
    if rng.random() < 0.5:
        pbody["_px_changed"] = _static("px", rng.randrange(5))
    Partner = type(HasTraits)("Partner0", (HasTraits,), pbody)
    makers = trait_makers(rng, Partner)
    n = rng.randint(3, 8)
    body = {"choices_": List([1, 2, 3]), "lo_": Int(0), "hi_": Int(5),
            "partner": Instance(Partner), "__prefix__": "pre_"}
    names = []
    for i in range(n):
        kind, mk = rng.choice(makers)
        attr = "t%d" % i
        names.append((attr, kind))
        if mk == "PROPERTY_RW":
            body[attr] = Property()
            body["_get_" + attr] = _getter(attr)
            body["_set_" + attr] = _setter(attr)
        elif mk == "PROPERTY_INT":
            body[attr] = Property(Int)
            body["_get_" + attr] = _getter(attr)
            body["_set_" + attr] = _setter(attr)
        elif mk == "PROPERTY_CACHED":
            body[attr] = Property(depends_on="lo_")
            body["_get_" + attr] = cached_property(_getter(attr))
        elif mk == "PROPERTY_OBS":
            body[attr] = Property(observe="lo_, partner.px")
            body["_get_" + attr] = cached_property(_getter(attr)) if rng.random() < 0.5 else _getter(attr)
        elif mk == "DELEGATE":
            body[attr] = DelegatesTo("partner", prefix=rng.choice(["px", "pl", "pany"]))
        elif mk == "DELEGATE_PREFIX":
            body["q"] = DelegatesTo("partner", prefix=rng.choice(["pre_*", "*"]))
            names[-1] = ("q", kind)
        elif mk == "PROTOTYPE":
            body[attr] = PrototypedFrom("partner", prefix=rng.choice(["px", "py", "pl"]),
                                        listenable=rng.random() < 0.7)
        else:
            body[attr] = mk()
            r = rng.random()
            if r < 0.25:
                pool = [lambda: 1, lambda: "INVALID", lambda: [1, 2], lambda: None, lambda: {"a": 1}]
                body["_%s_default" % attr] = _default(attr, rng.choice(pool))
        r = rng.random()
        an = names[-1][0]
        if r < 0.35:
            body["_%s_changed" % an] = _static(an, rng.randrange(5))
        elif r < 0.45:
            body["_%s_fired" % an] = _static(an, rng.randrange(5))
    if rng.random() < 0.3:
        def _any(self, name, old, new):
            CH.act(self, name, "anytrait")
        body["_anytrait_changed"] = _any
    if rng.random() < 0.3:
        body["w_"] = rng.choice([Int, Str, ReadOnly, Disallow, Any])
    if rng.random() < 0.3 and names:
        an = names[0][0]
        body["_deco_obs"] = observe(an)(lambda self, event: CH.act(self, an, "deco-observe"))
    if rng.random() < 0.2 and names:
        an = names[-1][0]
        body["_deco_otc"] = on_trait_change(an)(lambda self: CH.act(self, an, "deco-otc"))
    base = rng.choice([HasTraits, HasTraits, HasTraits, HasStrictTraits, HasPrivateTraits])
    Main = type(HasTraits)("Main_" + tag, (base,), body)
    if rng.random() < 0.3:
        sub_body = {}
        if names and rng.random() < 0.5:
            an = names[0][0]
            sub_body["_%s_default" % an] = _default(an, lambda: 2)
        sub_body["extra"] = List(Str)
        Main = type(HasTraits)("Sub_" + tag, (Main,), sub_body)
    return Partner, Main, [n for n, _ in names], [k for _, k in names]


# --- operations ---------------------------------------------------------------
N_OPS = 34


def run_program(rng, tag, nops, chaos_p, fail_at=None, fail_exc=None, stats=None):
    """Generate one class family and run `nops` random API operations on it."""
    CH.enabled = False
    try:
        Partner, Main, names, kinds = gen_classes(rng, tag)
    except ChaosError:
        return
    except Exception as e:      # class definition rejected (e.g. conflicting names)
        if stats is not None:
            stats("classdef-exc:" + type(e).__name__)
        return
    CH.reset(rng, chaos_p, fail_at, fail_exc)
    objs = CH.objects
    import warnings
    wctx = warnings.catch_warnings()
    wctx.__enter__()
    # some programs run with warnings turned into errors (or shown): the C code issues
    # warnings on a few error paths
    warnings.simplefilter(rng.choice(["ignore", "ignore", "ignore", "error", "always"]))
    try:
        for i in range(rng.randint(1, 3)):
            try:
                o = Main()
                if rng.random() < 0.8:
                    o.partner = Partner()
                objs.append(o)
            except Exception:
                pass
        handlers = CH.program_handlers
        allnames = names + ["partner", "lo_", "w_zz", "undeclared", "_priv", "trait_added",
                            "choices_", "anytrait"]
        for step in range(nops):
            if not objs:
                try:
                    objs.append(Main())
                except Exception:
                    break
            o = rng.choice(objs)
            nm = rng.choice(allnames)
            op = rng.randrange(N_OPS)
            if stats is not None:
                stats("op:%d" % op)
            try:
                _one_op(rng, op, o, nm, objs, handlers, Main, Partner, names)
            except RecursionError:
                pass
            except Exception as e:
                if stats is not None:
                    stats("exc:" + type(e).__name__)
    finally:
        CH.enabled = False
        del objs[:]
        wctx.__exit__(None, None, None)


def _one_op(rng, op, o, nm, objs, handlers, Main, Partner, names):
    if op in (0, 1, 2, 3):
        setattr(o, nm, rng.choice(VALUE_POOL))
    elif op in (4, 5):
        getattr(o, nm)
    elif op == 6:
        delattr(o, nm)
    elif op == 7:
        h = make_handler(rng.randrange(5), "h")
        o.on_trait_change(h, nm, dispatch=rng.choice(["same", "same", "ui"]))
        handlers.append((o, h, nm, "otc"))
    elif op == 8:
        h = make_obs_handler("o")
        expr = rng.choice([nm, nm + ".items", "partner." + rng.choice(["px", "pl.items"]), "*",
                           "+mymeta", nm + ":items", "[%s,lo_]" % nm])
        o.observe(h, expr)
        handlers.append((o, h, expr, "obs"))
    elif op == 9:
        if handlers:
            oo, h, what, k = handlers.pop(rng.randrange(len(handlers)))
            if k == "otc":
                oo.on_trait_change(h, what, remove=True)
            else:
                oo.observe(h, what, remove=True)
    elif op == 10:
        o.add_trait(nm if rng.random() < 0.6 else "dyn%d" % rng.randrange(3),
                    rng.choice([Int(), Str(), List(Int), Any(), Float(), ChaosType(),
                                Trait(0, chaos_validator), Event(), ReadOnly, Instance(Partner, ()),
                                Property(_getter("dynp"), _setter("dynp"))]))
    elif op == 11:
        o.remove_trait(nm if rng.random() < 0.6 else "dyn%d" % rng.randrange(3))
    elif op == 12:
        c = pickle.loads(pickle.dumps(o, rng.choice([0, 2, 4, 5])))
        if rng.random() < 0.5:
            objs.append(c)
    elif op == 13:
        c = copy.deepcopy(o) if rng.random() < 0.5 else copy.copy(o)
        if rng.random() < 0.5:
            objs.append(c)
    elif op == 14:
        c = o.clone_traits(copy=rng.choice([None, "shallow", "deep"]))
        if rng.random() < 0.5:
            objs.append(c)
    elif op == 15:
        t = o.trait(nm)
        if t is not None:
            rng.choice([lambda: pickle.loads(pickle.dumps(t)), lambda: copy.deepcopy(t),
                        lambda: copy.copy(t), lambda: t.__getstate__(), lambda: t.default_value(),
                        lambda: t.default_value_for(o, nm), lambda: t.get_validate(),
                        lambda: t.validate(o, nm, rng.choice(VALUE_POOL)), lambda: t.is_property,
                        lambda: t._get_property(), lambda: t.handler, lambda: t.__dict__,
                        lambda: t.clone(t), lambda: repr(t), lambda: t.comparison_mode,
                        lambda: t.default_kind, lambda: t.default, lambda: t.inner_traits,
                        lambda: t.is_trait_type(Int), lambda: t.full_info(o, nm, 1),
                        lambda: t.post_setattr, lambda: t.modify_delegate, lambda: t.is_mapped,
                        lambda: t.post_setattr_original_value, lambda: t.setattr_original_value,
                        lambda: t.type, lambda: t.editor, lambda: t.get_help()])()
    elif op == 16:
        v = getattr(o, nm)
        pool = VALUE_POOL
        if isinstance(v, list):
            rng.choice([
                lambda: v.append(rng.choice(pool)), lambda: v.extend([rng.choice(pool), 1]),
                lambda: v.insert(rng.randint(-3, 3), rng.choice(pool)), lambda: v.pop(),
                lambda: v.__setitem__(slice(rng.choice([None, 0, 1]), rng.choice([None, 2, -1]),
                                            rng.choice([None, 1, 2, -1])), [rng.choice(pool), 2]),
                lambda: v.__delitem__(slice(None, None, 2)), lambda: v.sort(), lambda: v.reverse(),
                lambda: v.clear(), lambda: v.__imul__(rng.choice([0, 2])),
                lambda: v.__iadd__([rng.choice(pool)]), lambda: v.remove(rng.choice(pool)),
                lambda: v.__setitem__(0, rng.choice(pool)),
                lambda: v.__setitem__(0, [1, 2]) if v else None,
            ])()
        elif isinstance(v, dict):
            rng.choice([
                lambda: v.__setitem__(rng.choice(["a", "b", 1]), rng.choice(pool)),
                lambda: v.update({"a": rng.choice(pool), "c": 3}), lambda: v.pop("a", None),
                lambda: v.setdefault("z", rng.choice(pool)), lambda: v.clear(),
                lambda: v.popitem(), lambda: v.__ior__({"k": [1]}), lambda: v.__delitem__("a"),
            ])()
        elif isinstance(v, set):
            rng.choice([
                lambda: v.add(rng.choice([1, 2, "INVALID", 3.5])), lambda: v.discard(1),
                lambda: v.update([1, 5, "x"]), lambda: v.__ixor__({1, 9}), lambda: v.clear(),
                lambda: v.__iand__({1}), lambda: v.__isub__({1}), lambda: v.pop(),
                lambda: v.symmetric_difference_update([2, "x"]),
            ])()
    elif op == 17:
        o.trait_set(**{nm: rng.choice(VALUE_POOL), "lo_": rng.choice([0, 1, "x"])})
    elif op == 18:
        rng.choice([lambda: o.trait_get(nm), lambda: o.trait_get(), lambda: o.traits(),
                    lambda: o.trait_names(), lambda: o.all_trait_names(), lambda: o.base_trait(nm),
                    lambda: o.copyable_trait_names(), lambda: o.class_traits(),
                    lambda: o._instance_traits(), lambda: o._class_traits(),
                    lambda: o.traits(mymeta=True), lambda: o.validate_trait(nm, rng.choice(VALUE_POOL)),
                    lambda: o.trait(nm, force=True, copy=rng.random() < 0.5),
                    lambda: o.reset_traits(), lambda: o.reset_traits([nm]),
                    lambda: o.copy_traits(rng.choice(objs)), lambda: o.trait_context(),
                    lambda: o.print_traits() if False else None,
                    lambda: o.has_traits_interface(), lambda: repr(o),
                    lambda: o._trait(nm, rng.choice([-2, -1, 0, 1, 2])),
                    lambda: o.traits_inited(), lambda: o._trait_notifications_enabled(),
                    lambda: o._trait_notifications_vetoed(),
                    ])()
    elif op == 19:
        p = Partner()
        if rng.random() < 0.5:
            objs.append(p)
        o.partner = p if rng.random() < 0.8 else None
    elif op == 20:
        if len(objs) > 1:
            del objs[rng.randrange(len(objs))]
            gc.collect()
    elif op == 21:
        other = rng.choice(objs)
        if isinstance(other, Main) and isinstance(o, Main):
            o.sync_trait(nm, other, mutual=rng.random() < 0.7, remove=rng.random() < 0.2)
    elif op == 22:
        o.trait_property_changed(nm, rng.choice(VALUE_POOL), rng.choice(VALUE_POOL))
    elif op == 23:
        o._trait_change_notify(rng.random() < 0.5)
        try:
            setattr(o, nm, rng.choice(VALUE_POOL))
        finally:
            o._trait_change_notify(True)
    elif op == 24:
        o._trait_veto_notify(True)
        try:
            setattr(o, nm, rng.choice(VALUE_POOL))
        finally:
            o._trait_veto_notify(False)
    elif op == 25:
        Main.add_class_trait("late%d" % rng.randrange(3), rng.choice([Int(), List(Int), Str()]))
    elif op == 26:
        kw = {nm: rng.choice(VALUE_POOL)}
        objs.append(Main(**kw))
    elif op == 27:
        gc.collect()
    elif op == 28:
        o.trait_setq(**{nm: rng.choice(VALUE_POOL)})
    elif op == 29:
        o.on_trait_change(make_handler(rng.randrange(5), "x"), nm + "_items")
    elif op == 30:
        o.on_trait_change(make_handler(rng.randrange(5), "x"),
                          rng.choice(["partner.px", "partner:px", nm + "[]", "+mymeta", "partner.pl[]",
                                      "partner.-"]))
    elif op == 31:
        o.add_trait_listener(rng.choice(objs), "")
    elif op == 32:
        o.__dict__[nm] = rng.choice(VALUE_POOL)
    elif op == 33:
        o.__dict__.pop(nm, None)
