"""C14 sub-check A: reachable object states x {pickle 0-5, deepcopy, clone_traits}.

Module-level (picklable) classes, random histories, then for every copy mode the
oracle of DESIGN.md 4/C14: same class, equal non-transient values, transient
values back at the defaults, no shared mutable container beyond what the `copy`
metadata / clone_traits documentation allow, and a liveness battery on the copy
(items rejected / converted per the reference predicates, handlers and observers
fire exactly once on the copy and never on the original, observed properties
never stale, a written ReadOnly stays written).
"""
import collections
import copy as copy_mod
import pickle

from traits.api import (
    HasTraits, TraitError, Undefined, Any, Int, CInt, Float, Str, Range, Enum, Tuple, Map, List,
    Dict, Set, Instance, ReadOnly, Property, cached_property, observe, on_trait_change,
    PrototypedFrom, DelegatesTo,
)

from vf.lattice import lattice
from vf import reference as rf
from vf.util import same, short
from vf.reference import plainify

LOG = []          # (object, tag) appended by every declared / dynamic handler


def _log(obj, tag):
    LOG.append((obj, tag))


# --------------------------------------------------------------------------- classes
class Leaf(HasTraits):
    v = Int
    w = CInt(2)
    xs = List(Int)
    tmp = Int(5, transient=True)
    back = Instance(HasTraits)

    def _v_changed(self, old, new):
        _log(self, "leaf:v")

    @observe("xs.items")
    def _o_xs_items(self, event):
        _log(self, "leaf:o:xs.items")


class Style(HasTraits):
    color = Str("red")
    width = Int(1)


MAP = {"yes": 1, "no": 0, "maybe": 2}


class Obj(HasTraits):
    # deferring traits declared BEFORE the Instance trait holding their delegate
    # (copy_traits must still copy them after it)
    pcolor = PrototypedFrom("style", "color")
    dwidth = DelegatesTo("style", "width")
    # scalars
    n = Int(3)
    f = Range(0.0, 10.0, 1.0)
    name = Str("nm")
    c = CInt(1)
    e = Enum("a", "b", "c")
    tup = Tuple(Int, Str)
    m = Map(MAP, default_value="yes")
    # containers
    xs = List(Int)
    cl = List(CInt, maxlen=6)
    lf = List(Float)
    la = List(Any)
    ll = List(List(Int, maxlen=3), maxlen=4)
    d = Dict(Str, Int)
    dl = Dict(Str, List(Int, maxlen=3))
    da = Dict(Str, Any)
    s = Set(Int)
    xs_ref = List(Int, copy="ref")
    # instance graph
    child = Instance(Leaf)
    kids = List(Instance(Leaf))
    friend = Instance(Leaf, copy="ref")
    child_sh = Instance(Leaf, copy="shallow")
    reg = Dict(Str, Instance(Leaf))
    style = Instance(Style)
    # ... and the usual order: deferring traits declared after their delegate holder
    pcolor2 = PrototypedFrom("style", "color")
    dwidth2 = DelegatesTo("style", "width")
    # transient
    t_n = Int(7, transient=True)
    t_xs = List(Int, [1, 2], transient=True)
    t_any = Any(transient=True)
    # write once
    ro = ReadOnly
    # untyped, per-trait copy metadata
    bag = Any
    bag_deep = Any(copy="deep")
    bag_sh = Any(copy="shallow")
    bag_ref = Any(copy="ref")
    # properties
    total = Property(Int, observe="xs.items")
    dep = Property(depends_on="xs[]")
    npl = Property(observe="n")
    kidsum = Property(observe="kids.items.v")

    @cached_property
    def _get_total(self):
        return sum(self.xs)

    @cached_property
    def _get_dep(self):
        return len(self.xs)

    def _get_npl(self):
        return self.n + 1

    @cached_property
    def _get_kidsum(self):
        return sum(k.v for k in self.kids if k is not None)

    # static handlers
    def _xs_items_changed(self, event):
        _log(self, "xs_items")

    def _xs_changed(self, old, new):
        _log(self, "xs")

    def _cl_items_changed(self, event):
        _log(self, "cl_items")

    def _ll_items_changed(self, event):
        _log(self, "ll_items")

    def _d_items_changed(self, event):
        _log(self, "d_items")

    def _dl_items_changed(self, event):
        _log(self, "dl_items")

    def _s_items_changed(self, event):
        _log(self, "s_items")

    def _kids_items_changed(self, event):
        _log(self, "kids_items")

    def _n_changed(self, old, new):
        _log(self, "n")

    # decorated observers
    @observe("xs.items")
    def _o_xs_items(self, event):
        _log(self, "o:xs.items")

    @observe("ll.items")
    def _o_ll_items(self, event):
        _log(self, "o:ll.items")

    @observe("ll.items.items")
    def _o_ll_items_items(self, event):
        _log(self, "o:ll.items.items")

    @observe("d.items")
    def _o_d_items(self, event):
        _log(self, "o:d.items")

    @observe("dl.items")
    def _o_dl_items(self, event):
        _log(self, "o:dl.items")

    @observe("dl.items.items")
    def _o_dl_items_items(self, event):
        _log(self, "o:dl.items.items")

    @observe("s.items")
    def _o_s_items(self, event):
        _log(self, "o:s.items")

    @observe("child.v")
    def _o_child_v(self, event):
        _log(self, "o:child.v")

    @observe("kids.items.v")
    def _o_kids_v(self, event):
        _log(self, "o:kids.items.v")

    @observe("n", post_init=True)
    def _o_n_post(self, event):
        _log(self, "o:n:post")

    @observe("total")
    def _o_total(self, event):
        _log(self, "o:total")

    @observe("kidsum")
    def _o_kidsum(self, event):
        _log(self, "o:kidsum")

    # decorated legacy listeners
    @on_trait_change("child.v")
    def _l_child_v(self):
        _log(self, "l:child.v")

    @on_trait_change("n", post_init=True)
    def _l_n_post(self):
        _log(self, "l:n:post")


OBJ_SCALARS = ("n", "f", "name", "c", "e", "tup", "m")
OBJ_CONTAINERS = ("xs", "cl", "lf", "la", "ll", "d", "dl", "da", "s", "xs_ref")
OBJ_GRAPH = ("child", "kids", "friend", "child_sh", "reg", "style")
OBJ_DEFER = ("pcolor", "dwidth", "pcolor2", "dwidth2")     # compared by read outcome (a missing delegate raises)
STYLE_PERSISTENT = ("color", "width")
OBJ_TRANSIENT = ("t_n", "t_xs", "t_any")
OBJ_BAGS = ("bag", "bag_deep", "bag_sh", "bag_ref")
OBJ_PERSISTENT = OBJ_SCALARS + OBJ_CONTAINERS + OBJ_GRAPH + ("ro",) + OBJ_BAGS
LEAF_PERSISTENT = ("v", "w", "xs", "back")
LEAF_TRANSIENT = ("tmp",)


EXTRA_PERSISTENT = {}       # class -> persistent trait names, registered by the other C14 families


def persistent_names(node):
    if isinstance(node, Style):
        return STYLE_PERSISTENT
    for cls, names in EXTRA_PERSISTENT.items():
        if isinstance(node, cls):
            return names
    return OBJ_PERSISTENT if isinstance(node, Obj) else LEAF_PERSISTENT if isinstance(node, Leaf) else ()


def read(node, name):
    """('ok', value) or ('exc', exception class name) of reading node.name."""
    try:
        return ("ok", getattr(node, name))
    except Exception as e:  # noqa: BLE001
        return ("exc", type(e).__name__)


def transient_names(node):
    return OBJ_TRANSIENT if isinstance(node, Obj) else LEAF_TRANSIENT if isinstance(node, Leaf) else ()


def value_names(node):
    return persistent_names(node) + transient_names(node)


# --------------------------------------------------------------------------- histories
INT_ITEMS = [0, 1, 2, 3, 5, 7, 11, True, "x", None, 1.5, [1]]
CINT_ITEMS = [1, 2, "7", 2.9, "x", None, True]
FLOAT_ITEMS = [0.5, 1, 2.5, "a", None, True]
ANY_ITEMS = [1, "s", None, (1, 2), [1], {"a": 1}, [[1], [2]]]
INNER_LISTS = [[1], [1, 2], [], [1, 2, 3], [1, 2, 3, 4], ["x"], [1, "x"], 5, None]
KEYS = ["a", "b", "c", 1, None]
SCALAR_VALUES = {
    "n": [0, 1, 5, -2, 10 ** 12, "x", None, 1.5, True],
    "f": [0.0, 0.5, 3, 10.0, 11.0, -1.0, "x", None],
    "name": ["", "abc", "été", 5, None],
    "c": [0, "12", 3.7, "x", None],
    "e": ["a", "b", "c", "d", 1],
    "tup": [(1, "a"), (2, ""), (1, 2), ("a", 1), 5],
    "m": ["yes", "no", "maybe", "nope", 1],
}
BAG_IMMUTABLE = [5, "str", (1, 2), None, 2.5, frozenset({1})]
BAG_MUTABLE = [lambda: [1, 2], lambda: {"a": [1]}, lambda: [[1], [2]], lambda: {1, 2},
               lambda: {"k": {"z": 1}}, lambda: ([1], 2)]
ASSIGN_LITERALS = {
    "xs": [[1, 2], [], [1, "x"], [3, 2, 1, 0], 5],
    "cl": [[1, "2"], [], ["x"], [1, 2, 3, 4, 5, 6, 7]],
    "lf": [[0.5, 1], [], ["a"]],
    "la": [[1, [2]], [], [{"a": 1}]],
    "ll": [[[1], [2]], [[1, 2, 3]], [[1, 2, 3, 4]], [], [[1], "x"], [[1]] * 5],
    "d": [{"a": 1}, {}, {"a": "x"}, {1: 1}, {"a": 1, "b": 2}],
    "dl": [{"a": [1]}, {}, {"a": [1, 2, 3, 4]}, {"a": ["x"]}, {"a": [1], "b": []}],
    "s": [{1, 2}, set(), {"x"}, {3}],
    "xs_ref": [[1], [], ["x"]],
    "t_xs": [[5], [], ["x"]],
}
LIST_METHODS = ["append", "append", "extend", "insert", "setitem", "setslice", "delitem", "pop",
                "clear", "reverse", "sort", "imul", "iadd", "remove"]


def gen_ops(rng, n, mutable_bags):
    """A random history as a list of literal, JSON-friendly op tuples."""
    ops = []

    def pick(pool):
        return pool[rng.randrange(len(pool))]
    for _ in range(n):
        c = rng.randrange(34)
        if c >= 30:
            # removing the delegate while a local override exists (a dangling override) is the
            # pattern of an open finding: only the hazard stratum does it
            what = pick(["style_new", "style_new", "style_new", "swap", "style_none", "pset", "pset",
                         "pset", "pset2", "dset", "dset2", "pdel", "pdel2", "style_color", "style_width"])
            if what == "style_none" and not mutable_bags:
                what = "style_none_safe"
            elif mutable_bags and rng.random() < 0.04:
                what = "dangle"
            ops.append(("defer", what, pick(["blue", "green", "", 5, None]), rng.randint(0, 9)))
        elif c < 3:
            nm = pick(OBJ_SCALARS)
            ops.append(("set", nm, pick(SCALAR_VALUES[nm])))
        elif c < 8:
            nm = pick(["xs", "xs", "cl", "lf", "la", "xs_ref", "t_xs"])
            pool = {"xs": INT_ITEMS, "cl": CINT_ITEMS, "lf": FLOAT_ITEMS, "la": ANY_ITEMS,
                    "xs_ref": INT_ITEMS, "t_xs": INT_ITEMS}[nm]
            meth = pick(LIST_METHODS)
            ops.append(("lop", nm, meth, rng.randint(-3, 4), rng.randint(-1, 3),
                        [pick(pool) for _ in range(rng.randint(0, 3))], pick(pool)))
        elif c < 10:
            ops.append(("llo", pick(["append", "append", "setitem", "extend", "pop", "insert"]),
                        rng.randint(-2, 3), pick(INNER_LISTS)))
        elif c < 12:
            ops.append(("lli", rng.randint(0, 3), pick(["append", "extend", "setitem", "pop", "iadd"]),
                        rng.randint(-2, 2), pick(INT_ITEMS), [pick(INT_ITEMS) for _ in range(rng.randint(0, 2))]))
        elif c < 14:
            ops.append(("dop", pick(["set", "set", "update", "setdefault", "pop", "del", "ior", "clear"]),
                        pick(KEYS), pick(INT_ITEMS)))
        elif c < 16:
            ops.append(("dlo", pick(["set", "set", "update", "setdefault", "pop"]), pick(KEYS),
                        pick(INNER_LISTS)))
        elif c < 17:
            ops.append(("dli", pick(["a", "b", "c"]), pick(["append", "extend", "pop"]), pick(INT_ITEMS),
                        [pick(INT_ITEMS) for _ in range(rng.randint(0, 2))]))
        elif c < 18:
            if mutable_bags and rng.random() < 0.6:
                ops.append(("dao", pick(["a", "b"]), "mut", rng.randrange(len(BAG_MUTABLE))))
            else:
                ops.append(("dao", pick(["a", "b"]), "imm", rng.randrange(len(BAG_IMMUTABLE))))
        elif c < 20:
            ops.append(("sop", pick(["add", "add", "update", "discard", "ior", "iand", "ixor", "clear", "pop"]),
                        pick(INT_ITEMS), [pick(INT_ITEMS) for _ in range(rng.randint(0, 3))]))
        elif c < 21:
            nm = pick(sorted(ASSIGN_LITERALS))
            ops.append(("assign", nm, rng.randrange(len(ASSIGN_LITERALS[nm]))))
        elif c < 23:
            ops.append(("child", pick(["new", "new", "none", "setv", "xs_append", "alias_kid", "cycle", "setw"]),
                        rng.randint(0, 9), pick(INT_ITEMS)))
        elif c < 25:
            ops.append(("kids", pick(["append", "append", "pop", "setv", "alias_child", "xs_append", "cycle"]),
                        rng.randint(0, 3), rng.randint(0, 9), pick(INT_ITEMS)))
        elif c < 26:
            # Dict traits carry no copy metadata: instances held by one are kept out of the
            # histories of the other strata (see run_objects)
            kinds = ["friend_new", "friend_alias", "csh_new", "friend_cycle"]
            if mutable_bags:
                kinds += ["reg_new", "reg_alias", "reg_del", "reg_new"]
            ops.append(("other", pick(kinds), pick(["a", "b"]), rng.randint(0, 9)))
        elif c < 27:
            ops.append(("trans", pick(["t_n", "t_any"]), rng.randint(0, 9)))
        elif c < 28:
            ops.append(("ro", rng.randint(1, 9)))
        elif c < 29:
            which = pick(OBJ_BAGS)
            if mutable_bags and rng.random() < 0.7:
                ops.append(("bag", which, "mut", rng.randrange(len(BAG_MUTABLE))))
            else:
                ops.append(("bag", which, "imm", rng.randrange(len(BAG_IMMUTABLE))))
        else:
            r = rng.random()
            if r < 0.6:
                ops.append(("read", pick(["total", "dep", "npl", "kidsum", "m_", "xs", "ll", "kids"])))
            else:
                ops.append(("dyn", pick(["otc:xs_items", "obs:xs.items", "obs:child.v", "otc:n", "obs:d.items",
                                         "obs:ll.items.items", "otc:kids.v"])))
    return ops


def _list_op(l, meth, i, j, items, item):
    if meth == "append":
        l.append(item)
    elif meth == "extend":
        l.extend(items)
    elif meth == "insert":
        l.insert(i, item)
    elif meth == "setitem":
        l[i] = item
    elif meth == "setslice":
        l[i:i + max(j, 0)] = items
    elif meth == "delitem":
        del l[i]
    elif meth == "pop":
        l.pop(i)
    elif meth == "clear":
        l.clear()
    elif meth == "reverse":
        l.reverse()
    elif meth == "sort":
        l.sort()
    elif meth == "imul":
        l *= j
    elif meth == "iadd":
        l += items
    elif meth == "remove":
        l.remove(item)


def _dyn_handler(owner, tag):
    def h(*args):
        _log(owner, "dyn:" + tag)
    return h


def apply_op(o, op):
    """Interpret one op on o (exceptions are the caller's: the state stays reachable)."""
    k = op[0]
    if k == "set":
        setattr(o, op[1], op[2])
    elif k == "lop":
        _list_op(getattr(o, op[1]), op[2], op[3], op[4], list(op[5]), op[6])
    elif k == "llo":
        meth, i, v = op[1:]
        v = list(v) if isinstance(v, list) else v
        if meth == "append":
            o.ll.append(v)
        elif meth == "setitem":
            o.ll[i] = v
        elif meth == "extend":
            o.ll.extend([v, [1]])
        elif meth == "pop":
            o.ll.pop(i)
        elif meth == "insert":
            o.ll.insert(i, v)
    elif k == "lli":
        idx, meth, i, item, items = op[1:]
        if idx < len(o.ll):
            _list_op(o.ll[idx], meth, i, 0, list(items), item)
    elif k == "dop":
        meth, key, v = op[1:]
        if meth == "set":
            o.d[key] = v
        elif meth == "update":
            o.d.update({key: v, "c": 3})
        elif meth == "setdefault":
            o.d.setdefault(key, v)
        elif meth == "pop":
            o.d.pop(key)
        elif meth == "del":
            del o.d[key]
        elif meth == "ior":
            o.d |= {key: v}
        elif meth == "clear":
            o.d.clear()
    elif k == "dlo":
        meth, key, v = op[1:]
        v = list(v) if isinstance(v, list) else v
        if meth == "set":
            o.dl[key] = v
        elif meth == "update":
            o.dl.update([(key, v), ("z", [1])])
        elif meth == "setdefault":
            o.dl.setdefault(key, v)
        elif meth == "pop":
            o.dl.pop(key)
    elif k == "dli":
        key, meth, item, items = op[1:]
        if key in o.dl:
            _list_op(o.dl[key], meth, -1, 0, list(items), item)
    elif k == "dao":
        key, cls, i = op[1:]
        o.da[key] = BAG_MUTABLE[i]() if cls == "mut" else BAG_IMMUTABLE[i]
    elif k == "sop":
        meth, item, items = op[1:]
        hashable = [x for x in items if not isinstance(x, list)]
        if meth == "add":
            o.s.add(item)
        elif meth == "update":
            o.s.update(hashable)
        elif meth == "discard":
            o.s.discard(item if not isinstance(item, list) else 1)
        elif meth == "ior":
            o.s |= set(hashable)
        elif meth == "iand":
            o.s &= {1, 2, 3}
        elif meth == "ixor":
            o.s ^= set(hashable)
        elif meth == "clear":
            o.s.clear()
        elif meth == "pop":
            o.s.pop()
    elif k == "assign":
        lit = ASSIGN_LITERALS[op[1]][op[2]]
        setattr(o, op[1], copy_mod.deepcopy(lit))
    elif k == "child":
        what, v, item = op[1:]
        if what == "new":
            o.child = Leaf(v=v, xs=[v, 1])
        elif what == "none":
            o.child = None
        elif what == "alias_kid":
            if o.kids and o.kids[0] is not None:
                o.child = o.kids[0]
        elif o.child is not None:
            if what == "setv":
                o.child.v = v
            elif what == "setw":
                o.child.w = str(v)
            elif what == "xs_append":
                o.child.xs.append(item)
            elif what == "cycle":
                o.child.back = o
    elif k == "kids":
        what, i, v, item = op[1:]
        if what == "append":
            if len(o.kids) < 4:
                o.kids.append(Leaf(v=v))
        elif what == "pop":
            o.kids.pop()
        elif what == "alias_child":
            if o.child is not None and not any(x is o.child for x in o.kids):
                o.kids.append(o.child)
        elif i < len(o.kids) and o.kids[i] is not None:
            if what == "setv":
                o.kids[i].v = v
            elif what == "xs_append":
                o.kids[i].xs.append(item)
            elif what == "cycle":
                o.kids[i].back = o
    elif k == "other":
        what, key, v = op[1:]
        if what == "friend_new":
            o.friend = Leaf(v=v, xs=[v])
        elif what == "friend_alias":
            o.friend = o.child
        elif what == "friend_cycle":
            if o.friend is not None:
                o.friend.back = o
        elif what == "csh_new":
            o.child_sh = Leaf(v=v, xs=[v, v])
        elif what == "reg_new":
            o.reg[key] = Leaf(v=v)
        elif what == "reg_alias":
            o.reg[key] = o.child
        elif what == "reg_del":
            o.reg.pop(key, None)
    elif k == "defer":
        what, col, w = op[1:]
        if what == "style_new":
            if o.style is None:
                o.style = Style()
        elif what == "swap":
            o.style = Style(color="c%d" % w, width=w)
        elif what == "style_none":
            if w < 5:
                o.style = None
        elif what == "dangle":
            if o.style is None:
                o.style = Style()
            o.pcolor2 = "kept"
            o.style = None
        elif what == "style_none_safe":
            if w < 5 and "pcolor" not in o.__dict__ and "pcolor2" not in o.__dict__:
                o.style = None
        elif what == "pset":
            o.pcolor = col
        elif what == "pset2":
            o.pcolor2 = col
        elif what == "dset":
            o.dwidth = w if col is not None else "bad"
        elif what == "dset2":
            o.dwidth2 = w
        elif what == "pdel":
            del o.pcolor
        elif what == "pdel2":
            del o.pcolor2
        elif o.style is not None:
            if what == "style_color":
                o.style.color = "s%d" % w
            else:
                o.style.width = w + 10
    elif k == "trans":
        setattr(o, op[1], op[2])
    elif k == "ro":
        o.ro = op[1]
    elif k == "bag":
        which, cls, i = op[1:]
        setattr(o, which, BAG_MUTABLE[i]() if cls == "mut" else BAG_IMMUTABLE[i])
    elif k == "read":
        getattr(o, op[1])
    elif k == "dyn":
        kind, nm = op[1].split(":", 1)
        h = _dyn_handler(o, op[1])
        if kind == "otc":
            o.on_trait_change(h, nm)
        else:
            o.observe(h, nm)


def run_history(o, ops):
    done = 0
    for op in ops:
        try:
            apply_op(o, op)
            done += 1
        except (TraitError, IndexError, KeyError, ValueError, TypeError, AttributeError):
            pass
    return done


# --------------------------------------------------------------------------- copy modes
def cp_pickle0(o):
    return pickle.loads(pickle.dumps(o, 0))


def cp_pickle1(o):
    return pickle.loads(pickle.dumps(o, 1))


def cp_pickle2(o):
    return pickle.loads(pickle.dumps(o, 2))


def cp_pickle3(o):
    return pickle.loads(pickle.dumps(o, 3))


def cp_pickle4(o):
    return pickle.loads(pickle.dumps(o, 4))


def cp_pickle5(o):
    return pickle.loads(pickle.dumps(o, 5))


def cp_deepcopy(o):
    return copy_mod.deepcopy(o)


def cp_clone_none(o):
    return o.clone_traits()


def cp_clone_shallow(o):
    return o.clone_traits(copy="shallow")


def cp_clone_deep(o):
    return o.clone_traits(copy="deep")


COPY_MODES = [
    ("pickle0", "pickle", cp_pickle0), ("pickle1", "pickle", cp_pickle1), ("pickle2", "pickle", cp_pickle2),
    ("pickle3", "pickle", cp_pickle3), ("pickle4", "pickle", cp_pickle4), ("pickle5", "pickle", cp_pickle5),
    ("deepcopy", "deepcopy", cp_deepcopy), ("clone-none", "clone-none", cp_clone_none),
    ("clone-shallow", "clone-shallow", cp_clone_shallow), ("clone-deep", "clone-deep", cp_clone_deep),
]

_MODE_DEFAULT = {"deepcopy": "deep", "clone-none": "ref", "clone-shallow": "shallow", "clone-deep": "deep",
                 "clone-all-deep": "deep", "clone-all-none": "ref"}


def effective(mclass, meta):
    """Copy policy the statement / documentation prescribe for a trait whose
    `copy` metadata is `meta` under copy mode class `mclass`."""
    if mclass == "pickle":
        return "deep"
    if meta in ("ref", "shallow", "deep"):
        return meta
    return _MODE_DEFAULT[mclass]


# --------------------------------------------------------------------------- graph walks
def is_cont(x):
    return isinstance(x, (list, dict, set, bytearray))


def children_of(x):
    if isinstance(x, dict):
        return list(x.keys()) + list(x.values())
    if isinstance(x, (list, tuple, set, frozenset)):
        return list(x)
    return ()


def reach_all(root):
    """(containers, nodes) reachable from root: id -> object."""
    conts, nodes = {}, {}
    stack = [root]
    while stack:
        x = stack.pop()
        if isinstance(x, HasTraits):
            if id(x) in nodes:
                continue
            nodes[id(x)] = x
            for nm in value_names(x):
                stack.append(getattr(x, nm))
        elif is_cont(x):
            if id(x) in conts:
                continue
            conts[id(x)] = x
            stack.extend(children_of(x))
        elif isinstance(x, (tuple, frozenset)):
            stack.extend(x)
    return conts, nodes


def shared_containers(croot, mclass, oconts, onodes):
    """[(path, copy-metadata, what)] for containers of the copy that are also
    containers of the original where the policy does not allow sharing."""
    bad = []
    seen_nodes, seen_conts = set(), set()

    def strict_value(x, path, meta):
        stack = [(x, path)]
        while stack:
            y, p = stack.pop()
            if isinstance(y, HasTraits):
                if id(y) in onodes:
                    # an object of the original under a deep policy: it brings its containers along
                    if id(y) not in seen_nodes:
                        seen_nodes.add(id(y))
                        bad.append((p, meta, "instance:" + type(y).__name__))
                    continue
                visit_node(y, p)
            elif is_cont(y):
                if id(y) in seen_conts:
                    continue
                seen_conts.add(id(y))
                if id(y) in oconts:
                    bad.append((p, meta, type(y).__name__))
                    continue
                for ch in children_of(y):
                    stack.append((ch, p + "[]"))
            elif isinstance(y, (tuple, frozenset)):
                for ch in y:
                    stack.append((ch, p + "()"))

    def visit_node(node, path):
        if id(node) in seen_nodes:
            return
        seen_nodes.add(id(node))
        for nm in value_names(node):
            meta = node.base_trait(nm).copy
            eff = effective(mclass, meta)
            if eff == "ref":
                continue
            val = getattr(node, nm)
            if eff == "shallow":
                if is_cont(val) and id(val) in oconts:
                    bad.append((path + "." + nm, meta, "top:" + type(val).__name__))
                continue
            strict_value(val, path + "." + nm, meta)
    visit_node(croot, "copy")
    return bad


def veq(a, b, memo, path="obj"):
    """None when a (original side) and b (copy side) are equal values, else
    (path, reason).  HasTraits nodes compare by class and persistent traits;
    matched node pairs are collected in memo."""
    if a is b:
        return None
    if isinstance(a, HasTraits) or isinstance(b, HasTraits):
        if type(a) is not type(b):
            return (path, "class %s vs %s" % (type(a).__name__, type(b).__name__))
        key = (id(a), id(b))
        if key in memo:
            return None
        memo[key] = (a, b)
        for nm in persistent_names(a):
            r = veq(getattr(a, nm), getattr(b, nm), memo, path + "." + nm)
            if r:
                return r
        if isinstance(a, Obj):
            for nm in OBJ_DEFER:
                ra, rb = read(a, nm), read(b, nm)
                if ra[0] != rb[0] or (ra[0] == "exc" and ra[1] != rb[1]) or \
                        (ra[0] == "ok" and not same(ra[1], rb[1])):
                    return (path + "." + nm, "reads %s in the original%s, %s in the copy%s" % (
                        short(ra, 40), " (local override)" if nm in a.__dict__ else "",
                        short(rb, 40), " (local override)" if nm in b.__dict__ else ""))
        return None
    if type(a) is not type(b):
        return (path, "type %s vs %s" % (type(a).__name__, type(b).__name__))
    if isinstance(a, (list, tuple)):
        if len(a) != len(b):
            return (path, "length %d vs %d" % (len(a), len(b)))
        for i, (x, y) in enumerate(zip(a, b)):
            r = veq(x, y, memo, "%s[%d]" % (path, i))
            if r:
                return r
        return None
    if isinstance(a, dict):
        if set(a.keys()) != set(b.keys()):
            return (path, "keys %r vs %r" % (sorted(map(repr, a)), sorted(map(repr, b))))
        for k in a:
            r = veq(a[k], b[k], memo, "%s[%r]" % (path, k))
            if r:
                return r
        return None
    if isinstance(a, (set, frozenset)):
        return None if a == b else (path, "set %r vs %r" % (a, b))
    return None if same(a, b) else (path, "%s vs %s" % (short(a, 60), short(b, 60)))


def deep_plain(x, depth=0):
    if isinstance(x, HasTraits):
        return ("node", id(x))
    if isinstance(x, (list, tuple)):
        return [type(x).__name__] + [deep_plain(e, depth + 1) for e in x]
    if isinstance(x, dict):
        return {k: deep_plain(v, depth + 1) for k, v in x.items()}
    if isinstance(x, (set, frozenset)):
        return set(x)
    return x


def snapshot(root):
    conts, nodes = reach_all(root)
    sc = {i: (c, deep_plain(c)) for i, c in conts.items()}
    sn = {}
    for i, n in nodes.items():
        vals = {}
        for nm in value_names(n):
            v = getattr(n, nm)
            vals[nm] = ("id", id(v)) if (is_cont(v) or isinstance(v, HasTraits)) else ("v", v)
        if isinstance(n, Obj):
            for nm in OBJ_DEFER:
                vals[nm] = ("v", read(n, nm) + (nm in n.__dict__,))
        sn[i] = (n, vals)
    return sc, sn


def snapshot_diff(before, root):
    """None if the graph under root still equals the snapshot, else a description."""
    sc0, sn0 = before
    sc1, sn1 = snapshot(root)
    if set(sc0) != set(sc1) or set(sn0) != set(sn1):
        return "set of reachable containers / objects changed"
    for i, (c, plain) in sc0.items():
        if not same(plain, sc1[i][1]):
            return "container %s changed: %s -> %s" % (type(c).__name__, short(plain, 80), short(sc1[i][1], 80))
    for i, (n, vals) in sn0.items():
        for nm, (k, v) in vals.items():
            k1, v1 = sn1[i][1][nm]
            if k != k1 or (k == "id" and v != v1) or (k == "v" and not same(v, v1)):
                return "%s.%s changed: %s -> %s" % (type(n).__name__, nm, short(v, 60), short(v1, 60))
    return None


# --------------------------------------------------------------------------- liveness battery
class Stop(Exception):
    """First violation on one copy: the rest of its battery is skipped."""


REF_CINT = rf.ref_cast(int, (ValueError, TypeError))
REF_INNER = rf.ref_list(rf.ref_int, 0, 3)
REF_LEAF = rf.ref_instance(Leaf, True)
SCALAR_REFS = {
    "n": rf.ref_int, "f": rf.ref_range_float(0.0, 10.0, False, False), "name": rf.ref_isinstance(str),
    "c": REF_CINT, "e": rf.ref_enum(("a", "b", "c")), "tup": rf.ref_tuple(rf.ref_int, rf.ref_isinstance(str)),
    "m": rf.ref_map(MAP),
}
_CAND_CLASSES = ("none", "bool", "int", "bigint", "float", "nan", "str", "bytes", "int-subclass", "np-int",
                 "np-float", "index-ok", "index-wrongtype", "index-raises", "float-ok", "tuple", "list",
                 "set", "dict", "object")
_CANDS = []


def candidates():
    if not _CANDS:
        per = collections.Counter()
        for vid, vclass, v in lattice():
            if vclass in _CAND_CLASSES and per[vclass] < 2:
                per[vclass] += 1
                _CANDS.append((vid, vclass, v))
    return _CANDS


def inner_candidates():
    return [("[1]", "list", [1]), ("[1,2,3]", "list", [1, 2, 3]), ("[1,2,3,4]", "list-too-long", [1, 2, 3, 4]),
            ("['x']", "list-bad-item", ["x"]), ("[1,'x']", "list-bad-item", [1, "x"]), ("5", "int", 5),
            ("None", "none", None), ("[True]", "list", [True]), ("[]", "list", []), ("(1,)", "tuple", (1,))]


_OTHER = []


def leaf_candidates(i):
    """i-th candidate value for a slot of type Instance(Leaf) (built on demand: a Leaf that
    is accepted becomes part of the copy and must not be shared between copies)."""
    from vf.lattice import Plain
    if not _OTHER:
        _OTHER.append(Obj())
    return [lambda: ("Leaf()", "leaf", Leaf(v=1)), lambda: ("5", "int", 5), lambda: ("'x'", "str", "x"),
            lambda: ("Plain()", "object", Plain()), lambda: ("Obj()", "other-hastraits", _OTHER[0])][i % 5]()


def verdict(r):
    """'accept' / 'reject' / None (reference leaves it open)."""
    if r.acceptable() and not r.rej and not r.passes:
        return "accept"
    if not r.acceptable() and r.rej:
        return "reject"
    return None


class Battery:
    def __init__(self, ctx, rng, mode, mclass, orig, copy, onodes):
        self.ctx, self.rng, self.mode, self.mclass = ctx, rng, mode, mclass
        self.O, self.C, self.onodes = orig, copy, onodes
        self.trace = []

    # -- reporting ------------------------------------------------------------
    def fail(self, sub, complaint, msg):
        self.ctx.violation("obj/%s/%s/%s" % (self.mclass, sub, complaint),
                           "%s copy: %s: %s (battery so far: %s)" % (self.mode, complaint, msg, self.trace[-6:]),
                           {"mode": self.mode, "trace": self.trace[-12:]})
        raise Stop()

    def own(self, node):
        """a node of the copy that is not (legitimately or not) a node of the original"""
        return node is not None and id(node) not in self.onodes

    # -- item probes ----------------------------------------------------------
    def probe_list(self, l, ref, maxlen, cand, where):
        vid, vclass, v = cand
        try:
            r = ref(v)
        except Exception:
            return
        want = verdict(r)
        if want is None:
            self.ctx.count("live_undetermined")
            return
        op = self.rng.choice(["append", "insert", "extend", "setitem", "setslice", "iadd"])
        if op == "setitem" and not len(l):
            op = "append"
        if op != "setitem" and maxlen is not None and len(l) >= maxlen:
            op = "setitem"
        before = list(l)
        n0 = len(l)
        self.trace.append((where, op, vid))
        try:
            if op == "append":
                l.append(v)
                pos = -1
            elif op == "insert":
                l.insert(0, v)
                pos = 0
            elif op == "extend":
                l.extend([v])
                pos = -1
            elif op == "setitem":
                pos = self.rng.randrange(n0)
                l[pos] = v
            elif op == "setslice":
                l[0:0] = [v]
                pos = 0
            else:
                l += [v]
                pos = -1
            out = "ok"
        except TraitError:
            out = "TE"
        except Exception as e:  # noqa: BLE001
            out = "EXC:" + type(e).__name__
            if type(e) in r.passes:
                return
        self.ctx.ev()
        self.ctx.sig("live-item", where, op, vclass, out)
        self.ctx.sig("live-item", self.mclass, where, want)
        if want == "reject":
            if out == "ok":
                self.fail("live-item", "invalid-item-accepted/" + where,
                          "%s(%s) on %s of the copy was accepted: %s" % (op, vid, where, short(list(l), 80)))
            if out != "TE":
                self.fail("live-item", "wrong-exception/" + where, "%s(%s) raised %s" % (op, vid, out))
            if [id(x) for x in l] != [id(x) for x in before]:
                self.fail("live-item", "changed-on-rejection/" + where, "%s(%s)" % (op, vid))
            self.ctx.count("live_rejected")
        else:
            if out != "ok":
                self.fail("live-item", "valid-item-rejected/" + where, "%s(%s) raised %s" % (op, vid, out))
            stored = l[pos]
            if not r.matches(stored):
                self.fail("live-item", "stored-not-converted/" + where,
                          "%s(%s) stored %s, reference allows %r" % (op, vid, short(stored, 60), r))
            if len(l) != n0 + (0 if op == "setitem" else 1):
                self.fail("live-item", "wrong-length/" + where, "%s(%s)" % (op, vid))
            self.ctx.count("live_accepted")
            if stored is not v:
                self.ctx.count("live_converted")

    def probe_dict(self, d, kref, vref, key, kcand, vcand, where):
        kid, kclass, k = kcand
        vid, vclass, v = vcand
        try:
            rk, rv = kref(k), vref(v)
        except Exception:
            return
        wk, wv = verdict(rk), verdict(rv)
        if wk is None or wv is None:
            self.ctx.count("live_undetermined")
            return
        want = "accept" if (wk == "accept" and wv == "accept") else "reject"
        op = self.rng.choice(["setitem", "update", "setdefault", "ior"])
        if op == "setdefault" and (wk != "accept" or any(rk.matches(kk) for kk in d)):
            op = "setitem"      # setdefault on a present key inserts (and validates) nothing
        before = dict(d)
        self.trace.append((where, op, kid, vid))
        try:
            if op == "setitem":
                d[k] = v
            elif op == "update":
                d.update({k: v})
            elif op == "setdefault":
                d.setdefault(k, v)
            else:
                d |= {k: v}
            out = "ok"
        except TraitError:
            out = "TE"
        except TypeError as e:
            if "unhashable" in str(e):
                return          # the probe itself is ill-formed for a dict
            out = "EXC:TypeError"
        except Exception as e:  # noqa: BLE001
            out = "EXC:" + type(e).__name__
            if type(e) in rk.passes or type(e) in rv.passes:
                return
        self.ctx.ev()
        self.ctx.sig("live-item", where, op, kclass if where == "d" and vid == "int:4" else vclass, out)
        self.ctx.sig("live-item", self.mclass, where, want)
        if want == "reject":
            if out == "ok":
                self.fail("live-item", "invalid-item-accepted/" + where,
                          "%s(%s, %s) on %s of the copy was accepted: %s" % (op, kid, vid, where, short(dict(d), 80)))
            if out != "TE":
                self.fail("live-item", "wrong-exception/" + where, "%s(%s, %s) raised %s" % (op, kid, vid, out))
            if set(d) != set(before) or any(d[x] is not before[x] for x in before):
                self.fail("live-item", "changed-on-rejection/" + where, "%s(%s, %s)" % (op, kid, vid))
            self.ctx.count("live_rejected")
        else:
            if out != "ok":
                self.fail("live-item", "valid-item-rejected/" + where, "%s(%s, %s) raised %s" % (op, kid, vid, out))
            hit = [kk for kk in d if rk.matches(kk)]
            if not hit:
                self.fail("live-item", "stored-not-converted/" + where, "key %s absent after %s" % (kid, op))
            if not rv.matches(d[hit[0]]):
                self.fail("live-item", "stored-not-converted/" + where,
                          "%s(%s, %s) stored %s" % (op, kid, vid, short(d[hit[0]], 60)))
            self.ctx.count("live_accepted")
            if d[hit[0]] is not v:
                self.ctx.count("live_converted")

    def probe_set(self, s, ref, cand, where):
        vid, vclass, v = cand
        try:
            r = ref(v)
        except Exception:
            return
        want = verdict(r)
        if want is None:
            self.ctx.count("live_undetermined")
            return
        op = self.rng.choice(["add", "update", "ior"])
        before = set(s)
        self.trace.append((where, op, vid))
        try:
            if op == "add":
                s.add(v)
            elif op == "update":
                s.update([v])
            else:
                s |= {v}
            out = "ok"
        except TraitError:
            out = "TE"
        except TypeError as e:
            if "unhashable" in str(e) and op == "ior":
                return
            out = "EXC:TypeError"
        except Exception as e:  # noqa: BLE001
            out = "EXC:" + type(e).__name__
            if type(e) in r.passes:
                return
        self.ctx.ev()
        self.ctx.sig("live-item", where, op, vclass, out)
        self.ctx.sig("live-item", self.mclass, where, want)
        if want == "reject":
            if out == "ok":
                self.fail("live-item", "invalid-item-accepted/" + where,
                          "%s(%s) on %s of the copy was accepted: %s" % (op, vid, where, short(set(s), 80)))
            if out != "TE":
                self.fail("live-item", "wrong-exception/" + where, "%s(%s) raised %s" % (op, vid, out))
            if set(s) != before:
                self.fail("live-item", "changed-on-rejection/" + where, "%s(%s)" % (op, vid))
            self.ctx.count("live_rejected")
        else:
            if out != "ok":
                self.fail("live-item", "valid-item-rejected/" + where, "%s(%s) raised %s" % (op, vid, out))
            if not any(r.matches(x) for x in s):
                self.fail("live-item", "stored-not-converted/" + where, "%s(%s): %s" % (op, vid, short(set(s), 60)))
            self.ctx.count("live_accepted")

    def item_probes(self):
        C, rng = self.C, self.rng
        cands = candidates()

        def pick(k=2):
            return [cands[rng.randrange(len(cands))] for _ in range(k)]
        for nm, ref, mx in (("xs", rf.ref_int, None), ("cl", REF_CINT, 6), ("lf", rf.ref_float, None),
                            ("xs_ref", rf.ref_int, None), ("t_xs", rf.ref_int, None)):
            for cand in pick(2 if nm in ("xs", "cl") else 1):
                self.probe_list(getattr(C, nm), ref, mx, cand, nm)
        inner = inner_candidates()
        self.probe_list(C.ll, REF_INNER, 4, inner[rng.randrange(len(inner))], "ll")
        for il in list(C.ll)[:2]:
            for cand in pick(2):
                self.probe_list(il, rf.ref_int, 3, cand, "ll[]")
        okkey = ("'zq'", "str", "zq")
        okval = ("int:4", "int", 4)
        for cand in pick(2):
            self.probe_dict(C.d, rf.ref_isinstance(str), rf.ref_int, None, okkey, cand, "d")
        self.probe_dict(C.d, rf.ref_isinstance(str), rf.ref_int, None, pick(1)[0], okval, "d")
        self.probe_dict(C.dl, rf.ref_isinstance(str), REF_INNER, None, okkey,
                        inner[rng.randrange(len(inner))], "dl")
        for il in list(C.dl.values())[:2]:
            for cand in pick(2):
                self.probe_list(il, rf.ref_int, 3, cand, "dl[]")
        for cand in pick(2):
            self.probe_set(C.s, rf.ref_int, cand, "s")
        self.probe_list(C.kids, REF_LEAF, 5, leaf_candidates(rng.randrange(5)), "kids")
        self.probe_dict(C.reg, rf.ref_isinstance(str), REF_LEAF, None, okkey, leaf_candidates(rng.randrange(5)),
                        "reg")
        leaves = [C.child, C.child_sh] + list(C.kids)[:2] + list(C.reg.values())[:1]
        done = set()
        for lf in leaves:
            if self.own(lf) and isinstance(lf, Leaf) and id(lf) not in done:
                done.add(id(lf))
                self.probe_list(lf.xs, rf.ref_int, None, pick(1)[0], "leaf.xs")
        # attribute level
        for nm in rng.sample(OBJ_SCALARS, 3):
            pool = SCALAR_VALUES[nm]
            v = pool[rng.randrange(len(pool))]
            r = SCALAR_REFS[nm](v)
            want = verdict(r)
            if want is None:
                continue
            before = getattr(C, nm)
            self.trace.append(("set", nm, short(v, 20)))
            try:
                setattr(C, nm, v)
                out = "ok"
            except TraitError:
                out = "TE"
            except Exception as e:  # noqa: BLE001
                out = "EXC:" + type(e).__name__
            self.ctx.ev()
            self.ctx.sig("live-attr", self.mclass, nm, want, out)
            if want == "reject":
                if out != "TE":
                    self.fail("live-attr", "invalid-value-accepted/" + nm, "%s <- %r gave %s" % (nm, v, out))
                if not same(getattr(C, nm), before):
                    self.fail("live-attr", "changed-on-rejection/" + nm, "%s <- %r" % (nm, v))
                self.ctx.count("live_rejected")
            else:
                if out != "ok" or not r.matches(getattr(C, nm)):
                    self.fail("live-attr", "valid-value-mishandled/" + nm,
                              "%s <- %r gave %s, stored %r" % (nm, v, out, getattr(C, nm)))
                self.ctx.count("live_accepted")
        self.ctx.ev()
        if C.m_ != MAP[C.m]:
            self.fail("live-attr", "mapped-shadow-stale", "m=%r m_=%r" % (C.m, C.m_))

    # -- notifications --------------------------------------------------------
    def expect(self, what, action, expected):
        """expected: {(object, tag): count}.  Exactly these must be logged."""
        del LOG[:]
        self.trace.append(("notify", what))
        try:
            action()
        except Exception as e:  # noqa: BLE001
            self.fail("live-notify", "valid-mutation-raised/" + what, "%s: %r" % (type(e).__name__, e))
        seen = collections.Counter()
        objs = {}
        for obj, tag in LOG:
            seen[(id(obj), tag)] += 1
            objs[id(obj)] = obj
        del LOG[:]
        self.ctx.ev()
        self.ctx.count("live_notifications", sum(seen.values()))
        for (oid, tag), n in seen.items():
            if oid in self.onodes:
                self.fail("live-notify", "event-on-original/" + tag,
                          "%s on the copy fired %r on (an object of) the original" % (what, tag))
        exp = collections.Counter({(id(o), t): n for (o, t), n in expected.items()})
        for key, n in exp.items():
            got = seen.get(key, 0)
            if got == 0:
                self.fail("live-notify", "handler-not-fired/" + key[1], "%s: %r never fired (saw %s)"
                          % (what, key[1], sorted(t for (_i, t) in seen)))
            if got != n:
                self.fail("live-notify", "handler-fired-%dx/%s" % (min(got, 3), key[1]),
                          "%s: %r fired %d times, expected %d" % (what, key[1], got, n))
        for key, n in seen.items():
            if key not in exp:
                self.fail("live-notify", "unexpected-event/" + key[1], "%s fired %r x%d" % (what, key[1], n))
        self.ctx.sig("live-notify", self.mclass, what, len(exp))
        self.ctx.count("live_notify_probes")

    def notification_probes(self):
        C = self.C
        self.expect("xs.append", lambda: C.xs.append(4),
                    {(C, "xs_items"): 1, (C, "o:xs.items"): 1, (C, "o:total"): 1})
        key = "nk%d" % len(C.d)
        self.expect("d.setitem", lambda: C.d.__setitem__(key, 5), {(C, "d_items"): 1, (C, "o:d.items"): 1})
        new = max([x for x in C.s if isinstance(x, int)] + [0]) + 1
        self.expect("s.add", lambda: C.s.add(new), {(C, "s_items"): 1, (C, "o:s.items"): 1})
        if len(C.ll) < 4:
            self.expect("ll.append", lambda: C.ll.append([1]),
                        {(C, "ll_items"): 1, (C, "o:ll.items"): 1, (C, "o:ll.items.items"): 1})
        else:
            self.expect("ll.setitem", lambda: C.ll.__setitem__(0, [1]),
                        {(C, "ll_items"): 1, (C, "o:ll.items"): 1, (C, "o:ll.items.items"): 1})
        target = C.ll[-1] if len(C.ll[-1]) < 3 else C.ll[0]
        if len(target) < 3:
            self.expect("ll[].append", lambda: target.append(2), {(C, "o:ll.items.items"): 1})
        self.expect("dl.setitem", lambda: C.dl.__setitem__("nk", [1]),
                    {(C, "dl_items"): 1, (C, "o:dl.items"): 1, (C, "o:dl.items.items"): 1})
        self.expect("dl[].append", lambda: C.dl["nk"].append(2), {(C, "o:dl.items.items"): 1})
        if len(C.cl) < 6:
            self.expect("cl.append", lambda: C.cl.append("7"), {(C, "cl_items"): 1})
        else:
            self.expect("cl.setitem", lambda: C.cl.__setitem__(0, "7"), {(C, "cl_items"): 1})
        self.expect("n.set", lambda: setattr(C, "n", C.n + 1), {(C, "n"): 1, (C, "o:n:post"): 1, (C, "l:n:post"): 1})
        if self.own(C.child):
            ch = C.child
            exp = {(C, "o:child.v"): 1, (C, "l:child.v"): 1, (ch, "leaf:v"): 1}
            if any(k is ch for k in C.kids):
                exp[(C, "o:kids.items.v")] = 1
                exp[(C, "o:kidsum")] = 1
            self.expect("child.v.set", lambda: setattr(ch, "v", ch.v + 1), exp)
            self.expect("child.xs.append", lambda: ch.xs.append(3), {(ch, "leaf:o:xs.items"): 1})
        if len(C.kids) and self.own(C.kids[0]):
            k0 = C.kids[0]
            exp = {(C, "o:kids.items.v"): 1, (C, "o:kidsum"): 1, (k0, "leaf:v"): 1}
            if k0 is C.child:
                exp[(C, "o:child.v")] = 1
                exp[(C, "l:child.v")] = 1
            self.expect("kids[0].v.set", lambda: setattr(k0, "v", k0.v + 1), exp)
        if len(C.kids) < 5:
            nl = Leaf(v=2)
            self.expect("kids.append", lambda: C.kids.append(nl),
                        {(C, "kids_items"): 1, (C, "o:kidsum"): 1, (C, "o:kids.items.v"): 1})

    # -- properties -----------------------------------------------------------
    def property_steps(self):
        C, rng = self.C, self.rng
        for step in range(5):
            for nm in ("total", "dep", "kidsum", "npl"):
                getattr(C, nm)          # warm the caches
            c = rng.randrange(9)
            self.trace.append(("prop-step", c))
            try:
                if c == 0:
                    C.xs.append(step + 1)
                elif c == 1 and len(C.xs):
                    C.xs[0] = C.xs[0] + 9
                elif c == 2:
                    C.xs = [4, 5, step]
                elif c == 3 and len(C.xs):
                    del C.xs[0]
                elif c == 4:
                    C.xs.extend([1, 1])
                elif c == 5:
                    C.n = C.n + 1
                elif c == 6 and len(C.kids) and self.own(C.kids[0]):
                    C.kids[0].v = C.kids[0].v + 1
                elif c == 7 and len(C.kids) < 5:
                    C.kids.append(Leaf(v=2))
                elif c == 8:
                    C.kids = [Leaf(v=3)]
                else:
                    C.xs.append(0)
            except Exception as e:  # noqa: BLE001
                self.fail("live-property", "valid-mutation-raised", "step kind %d: %r" % (c, e))
            for nm, want in (("total", sum(C.xs)), ("dep", len(C.xs)), ("npl", C.n + 1),
                             ("kidsum", sum(k.v for k in C.kids if k is not None))):
                self.ctx.ev()
                got = getattr(C, nm)
                if not same(got, want):
                    self.fail("live-property", "stale/" + nm, "after step kind %d: %s = %r, recomputed %r"
                              % (c, nm, got, want))
            self.ctx.count("property_steps")
        del LOG[:]

    # -- write once -----------------------------------------------------------
    def readonly(self):
        C, O = self.C, self.O
        self.ctx.ev()
        if O.ro is Undefined:
            if C.ro is not Undefined:
                self.fail("live-readonly", "unwritten-became-written", "copy.ro = %r" % (C.ro,))
            return
        self.trace.append(("readonly",))
        if not same(C.ro, O.ro):
            self.fail("live-readonly", "written-value-lost", "original %r, copy %r" % (O.ro, C.ro))
        keep = C.ro
        try:
            C.ro = keep + 100
            out = "ok"
        except TraitError:
            out = "TE"
        except Exception as e:  # noqa: BLE001
            out = type(e).__name__
        if out != "TE" or not same(C.ro, keep):
            self.fail("live-readonly", "second-write-accepted", "second write gave %s, value now %r" % (out, C.ro))
        self.ctx.count("readonly_checked")
        self.ctx.sig("live-readonly", self.mclass)

    # -- deferral -------------------------------------------------------------
    def deferral(self):
        """Overridden prototyped values stay overridden; delegated ones are read and
        written through the copy's own delegate."""
        C, O = self.C, self.O
        st = C.style
        if st is None or not self.own(st):
            return
        self.trace.append(("deferral",))
        for nm in ("pcolor", "pcolor2"):
            if nm not in O.__dict__:
                continue
            self.ctx.ev()
            self.ctx.count("deferral_checked")
            keep = read(C, nm)
            if nm not in C.__dict__:
                self.fail("live-deferral", "override-lost/" + nm,
                          "the original overrides %s locally (%s), the copy does not (reads %s)"
                          % (nm, short(read(O, nm), 40), short(keep, 40)))
            st.color = st.color + "~"
            now = read(C, nm)
            if now != keep:
                self.fail("live-deferral", "override-follows-prototype/" + nm,
                          "%s read %s, after changing the copy's prototype %s" % (nm, short(keep, 40), short(now, 40)))
        for nm in ("dwidth", "dwidth2"):
            self.ctx.ev()
            self.ctx.count("deferral_checked")
            want = st.width + 31
            try:
                setattr(C, nm, want)
            except Exception as e:  # noqa: BLE001
                self.fail("live-deferral", "delegated-write-raised/" + nm, "%s: %r" % (type(e).__name__, e))
            if st.width != want or read(C, "dwidth") != ("ok", want) or read(C, "dwidth2") != ("ok", want):
                self.fail("live-deferral", "delegated-write-not-through-own-delegate/" + nm,
                          "%s <- %d: copy's style.width = %r, dwidth reads %s, dwidth2 reads %s"
                          % (nm, want, st.width, short(read(C, "dwidth"), 30), short(read(C, "dwidth2"), 30)))
            try:
                setattr(C, nm, "bad")
                out = "ok"
            except TraitError:
                out = "TE"
            except Exception as e:  # noqa: BLE001
                out = type(e).__name__
            if out != "TE" or st.width != want:
                self.fail("live-deferral", "invalid-delegated-write-mishandled/" + nm,
                          "%s <- 'bad' gave %s, style.width now %r" % (nm, out, st.width))
            self.ctx.count("live_rejected")
        self.ctx.sig("live-deferral", self.mclass, "pcolor" in O.__dict__, "pcolor2" in O.__dict__)
        del LOG[:]

    def run(self):
        self.item_probes()
        self.notification_probes()
        self.property_steps()
        self.readonly()
        self.deferral()


# --------------------------------------------------------------------------- per-state oracle
def features(o):
    ch = o.child
    return (ch is not None, ch is not None and any(k is ch for k in o.kids),
            ch is not None and ch.back is o, min(len(o.ll), 1) + min(len(o.dl), 1),
            o.ro is not Undefined, any(is_cont(getattr(o, b)) for b in OBJ_BAGS),
            o.style is not None, "pcolor" in o.__dict__ or "pcolor2" in o.__dict__)


def check_copy(ctx, rng, mode, mclass, fn, O, feat, fresh):
    """Copy O with fn and judge the copy.  Returns (copy or None, violated)."""
    ctx.count("copies")
    before = snapshot(O)
    oconts, onodes = reach_all(O)
    del LOG[:]
    try:
        C = fn(O)
    except Exception as e:  # noqa: BLE001
        ctx.sig("copy-raised", mclass, type(e).__name__)
        ctx.violation("obj/%s/copy-raised/%s" % (mclass, type(e).__name__),
                      "%s of a reachable state raised %s: %s" % (mode, type(e).__name__, short(e, 300)),
                      {"mode": mode})
        return None, True
    del LOG[:]
    violated = False
    ctx.ev()
    if type(C) is not type(O):
        ctx.violation("obj/%s/class-differs" % mclass, "%s gave a %s" % (mode, type(C).__name__), {"mode": mode})
        return None, True
    memo = {}
    r = veq(O, C, memo)
    ctx.ev(max(1, len(memo)) * len(OBJ_PERSISTENT))
    ctx.count("values_compared", max(1, len(memo)) * len(OBJ_PERSISTENT))
    if r:
        trait = r[0].split(".")[1].split("[")[0] if "." in r[0] else "?"
        if r[0].count(".") == 1 and trait in OBJ_DEFER and O.style is None and trait in O.__dict__:
            # a local override whose delegate is gone: one mechanism for every clone mode
            ctx.violation("obj/clone/dangling-override-lost",
                          "%s: %s is overridden locally in the original (reads %s) while its delegate is None; "
                          "the copy lost the override: %s" % (mode, trait, short(read(O, trait), 40), r[1]),
                          {"mode": mode, "trait": trait})
            return C, True
        ctx.violation("obj/%s/value-differs/%s" % (mclass, trait),
                      "%s: %s differs between original and copy: %s" % (mode, r[0], r[1]),
                      {"mode": mode, "path": r[0], "detail": r[1]})
        return C, True
    for a, b in list(memo.values()):
        if a is b:
            continue
        for tn in transient_names(b):
            ctx.ev()
            ctx.count("transient_checked")
            got, want = getattr(b, tn), getattr(fresh[type(b)], tn)
            if not same(plainify(got), plainify(want)):
                ctx.violation("obj/%s/transient-not-default/%s" % (mclass, tn),
                              "%s: transient %s.%s is %s in the copy (original %s, default %s)"
                              % (mode, type(b).__name__, tn, short(got, 60), short(getattr(a, tn), 60),
                                 short(want, 60)), {"mode": mode, "trait": tn})
                return C, True
            if not same(plainify(getattr(a, tn)), plainify(want)):
                ctx.count("transient_nondefault_in_original")
    if mclass != "pickle":
        # copy='ref' metadata means the reference itself is copied
        for nm in ("friend", "bag_ref"):
            ov = getattr(O, nm)
            if isinstance(ov, HasTraits) or is_cont(ov):
                ctx.ev()
                ctx.count("ref_identity_checked")
                if getattr(C, nm) is not ov:
                    ctx.violation("obj/%s/ref-not-shared/%s" % (mclass, nm),
                                  "%s: trait %s has copy='ref' metadata but the copy holds a different object"
                                  % (mode, nm), {"mode": mode, "trait": nm})
                    return C, True
    bad = shared_containers(C, mclass, oconts, onodes)
    ctx.ev()
    ctx.count("sharing_checked")
    ctx.sig("copy", mclass, feat)
    if bad:
        violated = True
        path, meta, what = bad[0]
        ctx.violation("obj/%s/shared-container/copy=%s" % (mclass, meta),
                      "%s: the copy shares a mutable %s with the original at %s (copy metadata of the trait: %r; "
                      "%d shared in all)" % (mode, what, path, meta, len(bad)),
                      {"mode": mode, "path": path, "copy_metadata": meta, "all": [b[0] for b in bad[:8]]})
        if meta is not None or mclass != "deepcopy":
            return C, True
        # sharing through a trait without copy metadata under copy.deepcopy: the copy itself is
        # still a usable state, keep judging it
    bat = Battery(ctx, rng, mode, mclass, O, C, onodes)
    try:
        bat.run()
        ctx.count("batteries_completed")
    except Stop:
        return C, True
    finally:
        del LOG[:]
    if not bad:
        ctx.ev()
        d = snapshot_diff(before, O)
        if d:
            ctx.violation("obj/%s/original-changed" % mclass,
                          "%s: mutating the copy changed the original: %s (battery: %s)" % (mode, d, bat.trace[-8:]),
                          {"mode": mode, "trace": bat.trace[-12:]})
            return C, True
        for nm, want in (("total", sum(O.xs)), ("dep", len(O.xs)), ("npl", O.n + 1),
                         ("kidsum", sum(k.v for k in O.kids if k is not None))):
            ctx.ev()
            if not same(getattr(O, nm), want):
                ctx.violation("obj/%s/original-property-stale/%s" % (mclass, nm),
                              "%s: original's %s = %r, recomputed %r" % (mode, nm, getattr(O, nm), want),
                              {"mode": mode})
                return C, True
        del LOG[:]
    return C, violated


CONT_MODES = [("pickle2", "pickle", cp_pickle2), ("pickle5", "pickle", cp_pickle5),
              ("deepcopy", "deepcopy", cp_deepcopy), ("copy", "copy", copy_mod.copy)]


def check_containers(ctx, rng, O):
    """Direct copies of the trait container objects themselves."""
    for nm in ("xs", "ll", "la", "d", "dl", "da", "s"):
        c = getattr(O, nm)
        mode, mclass, fn = CONT_MODES[rng.randrange(len(CONT_MODES))]
        ctx.count("container_copies")
        ctx.ev()
        try:
            cc = fn(c)
        except Exception as e:  # noqa: BLE001
            ctx.violation("cont/%s/copy-raised/%s/%s" % (mclass, type(e).__name__, type(c).__name__),
                          "%s of %s value raised %r" % (mode, nm, e), {"mode": mode, "trait": nm})
            return True
        complaint = None
        if type(cc) is not type(c):
            complaint = "type-differs"
        elif cc is c:
            complaint = "same-object"
        elif not same(deep_plain(c), deep_plain(cc)):
            complaint = "content-differs"
        elif mclass != "copy":
            oc, _n = reach_all(c)
            cc_c, _n = reach_all(cc)
            if set(oc) & set(cc_c):
                complaint = "shared-container"
        if complaint is None:
            # re-adoption by an object makes it live again
            X = Obj()
            bad_ok = False
            try:
                setattr(X, nm, cc)
                if nm in ("xs", "s"):
                    (X.xs.append if nm == "xs" else X.s.add)("bad")
                elif nm == "ll":
                    X.ll.append(["bad"])
                elif nm == "d":
                    X.d["k"] = "bad"
                elif nm == "dl":
                    X.dl["k"] = ["bad"]
                else:
                    raise TraitError("untyped")
                bad_ok = True
            except TraitError:
                pass
            if bad_ok:
                complaint = "readopted-copy-accepts-invalid"
            elif not same(deep_plain(getattr(X, nm)), deep_plain(c)):
                complaint = "readoption-failed"
            del LOG[:]
        if complaint is None:
            # the copy is detached: mutating it must not notify or change the original
            del LOG[:]
            snap0 = deep_plain(c)
            try:
                if isinstance(cc, list):
                    cc.append(1 if nm != "ll" else [1])
                elif isinstance(cc, dict):
                    cc["zz"] = 1 if nm != "dl" else [1]
                else:
                    cc.add(12345)
            except TraitError:
                pass
            if LOG:
                complaint = "copy-notifies-original"
            elif not same(snap0, deep_plain(c)):
                complaint = "copy-mutation-changes-original"
            del LOG[:]
        ctx.sig("cont", mclass, nm, min(len(c), 2), complaint)
        if complaint:
            ctx.violation("cont/%s/%s/%s" % (mclass, complaint, type(c).__name__),
                          "%s of the %s value %s: %s (copy %s)" % (mode, nm, short(c, 80), complaint, short(cc, 80)),
                          {"mode": mode, "trait": nm})
            return True
    return False


def check_state(ctx, rng, O, modes, ops):
    feat = features(O)
    copies = []
    fresh = {Obj: Obj(), Leaf: Leaf()}      # read only: the defaults a transient trait must be back at
    for mode, mclass, fn in modes:
        C, violated = check_copy(ctx, rng, mode, mclass, fn, O, feat, fresh)
        if violated:
            ctx.count("copies_with_violation")
        elif C is not None:
            copies.append(C)
    return copies


def calibrate():
    """The expectation tables of the battery must hold on never-copied objects
    (a failure here is a harness defect or a break outside C14's scope: raise)."""
    class _Ctx:
        phase = "calibrate"

        def __init__(self):
            self.v = []

        def ev(self, n=1):
            pass

        def count(self, *a):
            pass

        def sig(self, *a):
            pass

        def violation(self, key, msg, w=None):
            self.v.append((key, msg))
    import random
    for variant in range(3):
        o = Obj()
        if variant >= 1:
            o.child = Leaf(v=1, xs=[1])
            o.kids = [Leaf(v=2), Leaf(v=3)]
            o.ll = [[1], [2, 3]]
            o.dl = {"a": [1]}
            o.ro = 4
            o.style = Style()
            twin_over = variant == 2
            if twin_over:
                o.pcolor = "blue"
        if variant == 2:
            o.kids.append(o.child)
            o.child.back = o
        c = _Ctx()
        twin = Obj()
        if variant >= 1:
            twin.ro = 4
            twin.style = Style()
            if variant == 2:
                twin.pcolor = "blue"
        b = Battery(c, random.Random(variant), "fresh", "fresh", twin, o, {})
        try:
            b.run()
        except Stop:
            pass
        if c.v:
            raise RuntimeError("C14 battery expectation does not hold on a never-copied object: %r" % (c.v[:2],))
    del LOG[:]


def run_objects(ctx):
    calibrate()
    nh = ctx.scale(800, 20000)
    for h in range(nh):
        if not ctx.mine(h):
            continue
        if not ctx.begin("hist:%d" % h):
            continue
        try:
            rng = ctx.rng("hist", h)
            # own stratum (1/3): traits without `copy` metadata (Any, Dict) holding mutable values
            # or instances -- the pattern of the open copy.deepcopy finding
            mutable_bags = (h % 3 == 2)
            ops = gen_ops(rng, rng.randint(8, 30), mutable_bags)
            O = Obj()
            done = run_history(O, ops)
            ctx.count("history_ops", done)
            ctx.count("states")
            del LOG[:]
            copies = check_state(ctx, rng, O, COPY_MODES, ops)
            check_containers(ctx, rng, O)
            if copies:
                # second generation: a (battered) copy is itself a reachable state
                O2 = copies[rng.randrange(len(copies))]
                ops2 = gen_ops(rng, 5, mutable_bags)
                ctx.count("history_ops", run_history(O2, ops2))
                ctx.count("states")
                ctx.count("second_generation_states")
                del LOG[:]
                check_state(ctx, rng, O2, rng.sample(COPY_MODES, 3), ops + ops2)
            if h < 3 * ctx.nshards and h % ctx.nshards == ctx.shard:
                ctx.sample({"sub": "objects", "history": [list(map(lambda x: short(x, 30), op)) for op in ops[:6]],
                            "modes": [m[0] for m in COPY_MODES], "features": list(features(O))})
        finally:
            del LOG[:]
            ctx.end()
