"""C14 -- pickling, deep copying and cloning preserve state and keep traits live.

Sub-check A (vf/monitors/_c14_objs.py): reachable object states produced by random
histories on module-level classes (nested containers, Instance graphs with aliases
and cycles, transient traits, a written ReadOnly, decorated observers, items
handlers, observed cached properties, per-trait `copy` metadata), copied with
pickle protocols 0-5, copy.deepcopy and clone_traits(copy=None/'shallow'/'deep');
the copy is judged on class, values, transients, sharing and a liveness battery.
Further families of sub-check A: _c14_min.py (one liveness feature per class, awkward
trait names), _c14_more.py (lazy defaults, nested graphs, write-restricted kinds),
_c14_bounded.py (length-bounded lists -- minlen / maxlen in every placement -- holding
non-default contents) and _c14_ident.py (identity-hashed mutable objects as set members
and dict keys: object-graph comparison, sharing by step, graph consistency) and _c14_modes.py
(the copy-mode matrix per-trait copy metadata x requested mode x trait kind, judged by object
identity one and two levels down, for clone_traits and copy_traits, directly and nested).

Sub-check B (vf/monitors/_c14_defs.py): every kind of trait definition object
(CTrait) of the catalogue through pickle 0/2/5, copy.deepcopy, copy.copy; the
round-tripped definition must validate, default, describe itself and behave when
installed in a class exactly as the original.  Runs under the plain build (phase
main) and under the ASan+UBSan build (phase defs), one write-ahead record per
kind so that a crash is attributed to the kind.

See DESIGN.md section 4 / C14.
"""
from vf.monitors import _c14_defs as defs
from vf.monitors import _c14_objs as objs
from vf.monitors import _c14_min as minfam
from vf.monitors import _c14_more as more
from vf.monitors import _c14_bounded as bounded
from vf.monitors import _c14_ident as ident
from vf.monitors import _c14_modes as modes

META = {
    "level": "exploration",
    "rule": ("A: cases = (history, copy mode): a history is 8-30 random operations (scalar "
             "assignments incl. invalid ones, every list/dict/set mutator on List(Int), List(CInt), "
             "List(List(Int)), Dict(Str,Int), Dict(Str,List(Int)), Set(Int), untyped List/Dict/Any traits, "
             "Instance graph edits incl. aliases, cycles and copy='ref'/'shallow' links, PrototypedFrom / "
             "DelegatesTo traits declared before and after their delegate holder (override, delegated "
             "write, del, delegate swap / removal), transient writes, "
             "one ReadOnly write, property reads, dynamic listeners) on a module-level class; copy modes = "
             "pickle protocols 0-5, copy.deepcopy, clone_traits(copy=None/'shallow'/'deep'); a second "
             "generation copies a battered copy again.  A minimal family of 32 module-level classes carrying "
             "exactly one liveness feature each (one observer / post_init observer / observed or depends_on "
             "property / items handler / bare container / legacy listener / delegate / ReadOnly / transient "
             "/ event) goes through the same ten copy modes and the probe of its feature, so that no "
             "mechanism's re-initialisation is masked by another's; and ~140 generated classes whose single "
             "trait has an awkward but legal NAME (ending in _items, equal to 'items' / '_items', leading or "
             "trailing underscore, trait_* like the API, `xs` and `xs_items` both declared) x value type "
             "(List(Int) / Int) x listener flavour (none, declared observe / on_trait_change / depends_on / "
             "Property(observe), dynamic observe / on_trait_change).  "
             "Lazy family: a class whose _x_default methods depend on transient traits, a counter and uuid4, "
             "with a random subset of them never read before the copy (alone and nested in a parent); values "
             "are read on both sides after the round trip.  Graph family: trees of 1-8 nested nodes "
             "(siblings, chains, mixed) carrying list/dict values in Any and Dict(Str, Any) traits, every copy "
             "mode incl. clone_traits(traits='all'); independence at every depth, then the copy is mutated "
             "everywhere and the original must not change.  Restricted family: classes whose single "
             "write-restricted trait carries a value never assigned by the user (ReadOnly with a declared "
             "default / a default method / assigned once / unassigned, Constant, UUID with and without "
             "can_init), read and unread before the copy, every copy mode; value equality and the "
             "restriction itself on the copy.  Bounded family: a class declaring a length bound in every "
             "placement (List with minlen / minlen+maxlen / minlen == maxlen / maxlen only, a bounded list of "
             "instances with a dynamic default, bounded inner lists of a List, of Dict values with and without "
             "copy='deep', of a Tuple item, of the items of a List(Instance), an outer bound over unbounded inner "
             "lists, copy='shallow' / 'ref' metadata, a transient bounded list, nested objects), states with "
             "random legal non-default contents (lengths at the minimum / at the maximum / between) after "
             "random mutator histories, every copy mode incl. clone_traits(traits='all'); values trait by trait "
             "(a clone silently back at the trait's default is its own outcome), sharing, then on the bounded "
             "lists of the copy: invalid item, underflow and overflow rejected without change, valid mutation "
             "within the bounds accepted with exactly-once notification, original unchanged; the bounded "
             "container values themselves through copy.deepcopy / copy.copy / pickle and re-adoption.  Ident "
             "family: scenes whose Set / Dict traits hold identity-hashed MUTABLE objects (HasTraits instances, "
             "plain objects, tuples / frozensets wrapping them) as set members and dict keys - Set(Instance), "
             "Dict(Instance, Float|Instance) with copy='deep', a Dict without copy metadata (judged where the "
             "mode is deep), sets as Dict values / List items / nested in members, Set(Any) / Dict(Any, Any), "
             "Any(copy='deep') holding plain and standalone TraitSet / TraitDict / TraitList values, cycles "
             "through members, objects reachable along several paths - compared as name-labelled object "
             "graphs: value equality, no object of the original reachable in the copy along deep-policy "
             "paths (keyed by holding container type and step: set-member / dict-key / dict-value / list-item "
             "/ tuple-item), graph consistency (one original object = one copy object), liveness of the "
             "rebuilt sets / dicts incl. an observer looking through the set members, every member / key of "
             "the copy mutated with the original unchanged; the set / dict values themselves through "
             "copy.deepcopy / pickle.  Modes family: the copy-mode MATRIX per-trait copy metadata (default / ref / "
             "shallow / deep) x requested mode (None / shallow / deep) x trait kind (Any, Instance, List(Any), "
             "List(Instance), Dict(Str, Any), Dict(Str, Instance), Set(Instance), and the traits copy_traits defers: "
             "Property with a setter, PrototypedFrom) x value class (plain list / dict / set, plain object graph, "
             "HasTraits graph) for clone_traits(copy=m) (also traits='all', a subset, a caller's memo) and "
             "target.copy_traits(other, copy=m) (fresh / populated target, subset, memo), directly and on objects "
             "NESTED below the clone (Instance, List(Instance), Dict value, Any(copy='deep') container, plain "
             "object), after random histories (aliases, back references to the root) and on second-generation "
             "copies; original and copy are walked in parallel and judged by object IDENTITY one and two levels "
             "down against the documented precedence: per-trait metadata wins over the requested mode; 'ref' "
             "shares the value, 'shallow' gives a new value sharing everything below it, 'deep' shares nothing "
             "(nested traits without metadata are demanded deep under requested 'deep', unjudged otherwise; "
             "trait-owned containers are re-created per owner, their items judged).  B: cases = (definition kind, round-trip mode) "
             "with kinds = c01's atomic catalogue + properties (plain/validated/cached/observed, every "
             "getter/setter/validator arity), delegates, events, constants, policies, compounds, mapped, "
             "containers, instances by class/name, adapters, misc; modes = pickle 0/2/5, deepcopy, copy; "
             "each compared on the ~340-value lattice.  distinct_nontrivial counts distinct (copy mode "
             "class, state feature vector), (mode class, container, mutator, item class, verdict, "
             "outcome), (mode class, notification probe), (definition kind | value class, outcome class) "
             "and (kind, install step, outcome class) signatures."),
    "phases": [{"name": "main", "flavour": "P", "shards": 16},
               {"name": "defs", "flavour": "S", "shards": 16}],
    "gates": {
        "quick": {"evaluations": 550000, "states": 480, "copies": 3200, "batteries_completed": 3200,
                  "values_compared": 180000, "transient_checked": 12000,
                  "transient_nondefault_in_original": 2000, "sharing_checked": 3200,
                  "live_rejected": 48000, "live_accepted": 27000, "live_converted": 12000,
                  "live_notify_probes": 36000, "live_notifications": 80000, "property_steps": 16000,
                  "readonly_checked": 1300, "container_copies": 1600, "ref_identity_checked": 200,
                  "deferral_checked": 3500, "min_states": 300, "min_copies": 3000, "min_copies_live": 3000,
                  "min_notify_probes": 2000, "min_checks": 3000, "min_name_classes": 45, "min_name_states": 180,
                  "restricted_states": 15, "restricted_copies": 300, "restricted_copies_ok": 250,
                  "lazy_states": 30, "lazy_copies": 400, "lazy_unread_compared": 2500,
                  "graph_states": 50, "graph_states_3plus_nodes": 35, "graph_copies": 600,
                  "graph_deep_independence_checked_3plus": 280, "graph_nodes_compared": 2300,
                  "bounded_states": 32, "bounded_states_nested": 20, "bounded_copies": 350,
                  "bounded_copies_ok": 350, "bounded_nondefault_values_compared": 5500,
                  "bounded_sites_probed": 6000, "bounded_underflows_rejected": 5500,
                  "bounded_overflows_rejected": 2600, "bounded_notify_probes": 2100,
                  "bounded_value_copies_ok": 160,
                  "ident_states": 48, "ident_copies": 520, "ident_copies_ok": 520,
                  "ident_copies_with_instance_members": 450, "ident_copies_with_instance_keys": 500,
                  "ident_sharing_checked": 520, "ident_alias_checked": 520,
                  "ident_objects_reached_by_two_paths": 2500, "ident_members_mutated": 2700,
                  "ident_notify_probes": 3400, "ident_rejections": 5600, "ident_value_copies_ok": 190,
                  "modes_states": 32, "modes_states_nested": 8, "modes_copies": 480, "modes_copies_ok": 480,
                  "modes_second_generation_states": 32, "modes_slots_judged_direct": 11000,
                  "modes_slots_judged_nested": 39000, "modes_deferred_slots_judged": 8000,
                  "modes_shallow_under_deep_judged": 4500, "modes_l2_shared_confirmed": 32000,
                  "modes_l2_copied_confirmed": 41000, "modes_shared_confirmed": 18000, "modes_cell_None_None": 450,
                  "modes_cell_None_shallow": 450, "modes_cell_None_deep": 1600, "modes_cell_ref_None": 3800,
                  "modes_cell_ref_shallow": 3800, "modes_cell_ref_deep": 3800, "modes_cell_shallow_None": 4300,
                  "modes_cell_shallow_shallow": 4300, "modes_cell_shallow_deep": 4300, "modes_cell_deep_None": 7300,
                  "modes_cell_deep_shallow": 7300, "modes_cell_deep_deep": 7300,
                  "def_kinds": 120, "def_roundtrips": 600, "def_roundtrips_sanitized": 300,
                  "def_validate_comparisons": 120000, "def_install_steps": 80000},
        "thorough": {"evaluations": 10000000, "states": 12000, "copies": 80000, "batteries_completed": 80000,
                     "values_compared": 5000000, "transient_checked": 300000,
                     "transient_nondefault_in_original": 50000, "sharing_checked": 80000,
                     "live_rejected": 1200000, "live_accepted": 650000, "live_converted": 300000,
                     "live_notify_probes": 900000, "live_notifications": 2000000, "property_steps": 400000,
                     "readonly_checked": 30000, "container_copies": 45000, "ref_identity_checked": 4500,
                     "deferral_checked": 80000, "min_states": 5000, "min_copies": 50000,
                     "min_copies_live": 50000, "min_notify_probes": 33000, "min_checks": 60000,
                     "min_name_classes": 45, "min_name_states": 2800,
                     "restricted_states": 300, "restricted_copies": 7000, "restricted_copies_ok": 5000,
                     "lazy_states": 800, "lazy_copies": 11000, "lazy_unread_compared": 65000,
                     "graph_states": 1300, "graph_states_3plus_nodes": 900, "graph_copies": 16000,
                     "graph_deep_independence_checked_3plus": 7000, "graph_nodes_compared": 60000,
                     "bounded_states": 1200, "bounded_states_nested": 750, "bounded_copies": 13000,
                     "bounded_copies_ok": 13000, "bounded_nondefault_values_compared": 200000,
                     "bounded_sites_probed": 225000, "bounded_underflows_rejected": 200000,
                     "bounded_overflows_rejected": 95000, "bounded_notify_probes": 78000,
                     "bounded_value_copies_ok": 6000,
                     "ident_states": 1600, "ident_copies": 17500, "ident_copies_ok": 17500,
                     "ident_copies_with_instance_members": 15000, "ident_copies_with_instance_keys": 16500,
                     "ident_sharing_checked": 17500, "ident_alias_checked": 17500,
                     "ident_objects_reached_by_two_paths": 80000, "ident_members_mutated": 90000,
                     "ident_notify_probes": 110000, "ident_rejections": 180000, "ident_value_copies_ok": 6300,
                     "modes_states": 1200, "modes_states_nested": 300, "modes_copies": 18000, "modes_copies_ok": 18000,
                     "modes_second_generation_states": 1152, "modes_slots_judged_direct": 396000,
                     "modes_slots_judged_nested": 1404000, "modes_deferred_slots_judged": 288000,
                     "modes_shallow_under_deep_judged": 162000, "modes_l2_shared_confirmed": 1152000,
                     "modes_l2_copied_confirmed": 1476000, "modes_shared_confirmed": 648000,
                     "modes_cell_None_None": 16200, "modes_cell_None_shallow": 16200, "modes_cell_None_deep": 57600,
                     "modes_cell_ref_None": 136800, "modes_cell_ref_shallow": 136800, "modes_cell_ref_deep": 136800,
                     "modes_cell_shallow_None": 154800, "modes_cell_shallow_shallow": 154800,
                     "modes_cell_shallow_deep": 154800, "modes_cell_deep_None": 262800,
                     "modes_cell_deep_shallow": 262800, "modes_cell_deep_deep": 262800,
                     "def_kinds": 120, "def_roundtrips": 600, "def_roundtrips_sanitized": 300,
                     "def_validate_comparisons": 120000, "def_install_steps": 80000},
    },
    "assumptions": [
        "vf/reference.py decides which items a container of the copy must reject / convert",
        "copy.deepcopy is held to the statement (no shared mutable container except through "
        "copy='ref' / copy='shallow' metadata); clone_traits(copy=None/'shallow') may share what its "
        "docstring says ('copy reference', shallow copy) for traits without explicit copy metadata",
        "transient traits are demanded back at a fresh instance's defaults for all three mechanisms "
        "(clone_traits drops them through copyable_trait_names)",
        "aliasing (two traits naming one object) is not demanded to survive, only values - except in the "
        "ident family, where one object reachable along two paths that are BOTH copied deeply (shared memo) "
        "must stay one object: otherwise the copy's sets / dict keys do not denote the copy's own objects",
        "ident family: traits without copy metadata are not judged under copy.deepcopy (by-reference class, "
        "known finding of the obj family); container values pickled directly have the back references to "
        "their owner removed first (a pickle starting inside a cycle restores the owner before the container "
        "is filled)",
        "modes family: the kind of copy made of a trait value follows the documented precedence (copy_traits / "
        "clone_traits docstrings: the requested mode applies to 'any trait that does not have explicit copy "
        "metadata', None meaning 'copy reference'); over-copying (a deep copy where the class author asked for "
        "'shallow' or 'ref') is a violation like under-copying: state meant to stay shared is silently duplicated; "
        "traits without metadata of objects NESTED below the copy are only demanded deep under requested 'deep' "
        "(whether None / 'shallow' travel down is not judged), and never judged below copy_traits; the identity of "
        "a trait-owned container under 'ref' is not judged (it is re-created for its owner), its items' is",
        "round-tripped definitions are compared behaviourally with the original (differential), "
        "objects without value equality by type and attributes, UUID defaults by type",
    ],
    "case_timeout": 600,
}


def run(ctx):
    if ctx.phase == "defs":
        defs.run_defs(ctx)
        return
    minfam.run_min(ctx)
    more.run_more(ctx)
    bounded.run_bounded(ctx)
    ident.run_ident(ctx)
    modes.run_modes(ctx)
    objs.run_objects(ctx)
    defs.run_defs(ctx, shard_offset=5)
