"""C09 stratum "gcpoints": garbage collection occurring at EVERY point of an operation.

The statement quantifies over "garbage collection occurring at any point in the history" and
demands that "after either [the observed object or a bound-method handler's owner] has been
garbage-collected no change raises or calls anything".  The random histories of c09.py collect
between operations (and at allocation points via gc.set_threshold(1,1,1)); here the collection
is enumerated INSIDE one operation: the victims (the owner of a bound-method handler, the
observed root, or both) are cyclic garbage, automatic collection is off, the operation (a leaf
change, a link change, a container mutation, a further registration or an unregistration of a
kept handler) is counted once on a twin, and re-run on a fresh twin for every k with
gc.collect() injected before the k-th statement executed inside the traits package (vf.points).

Oracle per (victim kind, expression, operation, k):
  * the operation raises nothing, nothing reaches the observation / legacy exception channels,
    nothing is unraisable;
  * a kept function handler registered on a surviving root with the same expression is called
    exactly as often as on the fault-free twin (the dying notifier shares its notifier lists);
  * the dying owner's handler is called at most as often as on the twin;
  * after a final collection every victim is dead;
  * afterwards: a matched change calls the kept handler exactly once when the root survives and
    nothing when the root died, the dead owner's log stays as it is, nothing raises; a
    registration made during the collection works and is removable exactly once
    (NotifierNotFound on the next removal); an unregistration made during it holds.
Keys: gcpoint/<victim kind>/<op>/<what>.
"""
import gc
import os
import sys
import weakref

import traits
from traits.api import HasTraits, Int, Instance, List, Any, push_exception_handler, pop_exception_handler
from traits.observation.api import (push_exception_handler as obs_push,
                                    pop_exception_handler as obs_pop)
from traits.observation.exceptions import NotifierNotFound

from vf.points import Points, AVAILABLE

PKG = os.path.dirname(os.path.abspath(traits.__file__))


class ONode(HasTraits):
    value = Int
    child = Instance(HasTraits)
    children = List(Instance(HasTraits))
    me = Any


class Owner:
    def __init__(self, log):
        self.log = log
        self.me = self

    def on(self, event):
        self.log.append("owner")


class HOwner(HasTraits):
    me = Any
    log = Any

    def on(self, event):
        self.log.append("owner")


CHAN = []
UNRAISABLE = []


def _legacy_exc(obj, trait_name, old, new):
    CHAN.append(type(sys.exc_info()[1]).__name__)


def _obs_exc(event):
    CHAN.append(type(sys.exc_info()[1]).__name__)


def _unraisable(info):
    UNRAISABLE.append(getattr(info.exc_type, "__name__", "?"))


EXPRS = ("value", "child.value", "children.items.value", "child.child.value", "child:value",
         "children:items:value", "[child,children.items].value", "*")
VICTIMS = ("owner", "howner", "root", "root+owner")
OPS = ("leaf-change", "link-change", "container-change", "add-other", "remove-other")


def _build(victim, expr):
    """Returns a world: kept objects, logs, weakrefs of victims."""
    w = {"klog": [], "olog": [], "h2log": []}
    klog, olog, h2log = w["klog"], w["olog"], w["h2log"]

    def keep(event):
        klog.append("keep")

    def h2(event):
        h2log.append("h2")

    w["keep"], w["h2"] = keep, h2
    r = ONode()
    m = ONode()
    leaf = ONode()
    leaf2 = ONode()
    item = ONode()
    r.child = m
    m.child = leaf
    r.children = [item, m]
    item.child = leaf
    # which kept object's `value` the expression matches
    w["leaf"] = {"value": r, "child.value": m, "children.items.value": item, "child.child.value": leaf,
                 "child:value": m, "children:items:value": item,
                 "[child,children.items].value": item, "*": r}[expr]
    w["mid"] = {"child.child.value": m}.get(expr)
    w["m"], w["item"], w["leaf2"], w["lst"] = m, item, leaf2, r.children
    victims = []
    root_dies = victim.startswith("root")
    owner_dies = victim in ("owner", "howner", "root+owner")
    if owner_dies:
        o = HOwner(log=olog) if victim == "howner" else Owner(olog)
        o.me = o
        r.observe(o.on, expr)
        victims.append(weakref.ref(o))
        del o
    # the kept handler: on the same root when the root survives; when the root dies it is the
    # root's only (function) handler, and a second, surviving root observes the same leaves
    r.observe(keep, expr)
    if root_dies:
        r.me = r
        victims.append(weakref.ref(r))
        r2 = ONode()
        r2.child = m
        r2.children = [item, m]
        skl = w["s_log"] = []

        def skeep(event):
            skl.append("skeep")
        w["skeep"] = skeep
        if expr not in ("value", "*"):
            r2.observe(skeep, expr)
        w["r2"] = r2
        w["r"] = None
    else:
        w["r"] = r
    w["root_dies"] = root_dies
    w["owner_dies"] = owner_dies
    w["victims"] = victims
    del r
    return w


def _op(w, victim, expr, op):
    """The operation as a thunk, or None when the combination does not exist."""
    r = w["r"]
    leaf = w["leaf"]
    if w["root_dies"] and expr in ("value", "*"):
        return None                 # nothing of the observed graph survives the root
    if op == "leaf-change":
        return lambda: setattr(leaf, "value", leaf.value + 1)
    if op == "link-change":
        if expr == "child.child.value":
            mid, l2 = w["mid"], w["leaf2"]
            return lambda: setattr(mid, "child", l2)
        if r is None or expr in ("value", "*", "children.items.value", "children:items:value"):
            return None
        m2 = ONode()
        m2.child = ONode()
        return lambda: setattr(r, "child", m2)
    if op == "container-change":
        if "children" not in expr:
            return None
        lst = w["lst"]
        x = ONode()
        return lambda: lst.append(x)
    if op == "add-other":
        if r is None:
            return None
        h2 = w["h2"]
        return lambda: r.observe(h2, expr)
    if op == "remove-other":
        if r is None:
            return None
        h2 = w["h2"]
        r.observe(h2, expr)
        return lambda: r.observe(h2, expr, remove=True)
    raise AssertionError(op)


def _one(ctx, P, victim, expr, op, k, ref):
    def fail(what, msg):
        ctx.violation("gcpoint/%s/%s/%s" % (victim, op, what), msg,
                      {"stratum": "gcpoints", "victim": victim, "expression": expr, "op": op, "k": k,
                       "point": P.fired})
        return False

    gc.collect()
    del CHAN[:], UNRAISABLE[:]
    w = _build(victim, expr)
    thunk = _op(w, victim, expr, op)
    if thunk is None:
        return 0 if k is None else None
    del CHAN[:], UNRAISABLE[:]
    for name in ("klog", "olog", "h2log"):
        del w[name][:]
    if "s_log" in w:
        del w["s_log"][:]
    died = []

    def action():
        gc.collect()
        died.append(all(v() is None for v in w["victims"]))

    res, exc = P.run(thunk, k, action if k is not None else None)
    n = P.n
    counts = (len(w["klog"]), len(w["olog"]), len(w["h2log"]), len(w.get("s_log", ())))
    if k is None:
        ref["counts"] = counts
        if exc is not None or CHAN:
            ref["bad"] = True       # the twin itself misbehaves: not this stratum's business
        gc.collect()
        return n
    ctx.ev()
    ctx.count("gcpoint_runs")
    if P.fired is None:
        ctx.count("gcpoint_not_reached")
        return n
    eff = bool(died and died[0])
    ctx.count("gcpoint_effective" if eff else "gcpoint_victim_pinned_at_point")
    ctx.sig("gcp", victim, expr, op, P.fired, eff)
    if eff:
        ctx.notes.setdefault("_pts", set()).add(P.fired)
    if exc is not None:
        return fail("raised/%s" % type(exc).__name__, "operation raised %r" % (exc,))
    if CHAN:
        return fail("exception-channel/%s" % CHAN[0], "%r" % (CHAN,))
    if UNRAISABLE:
        return fail("unraisable/%s" % UNRAISABLE[0], "%r" % (UNRAISABLE,))
    rk, ro, rh2, rs = ref["counts"]
    ck, co, ch2, cs = counts
    if w["root_dies"]:
        if ck > rk:
            return fail("dying-root-handler-called-more-than-twin", "%d > %d" % (ck, rk))
        if cs != rs:
            return fail("surviving-root-handler-count", "surviving root's handler called %d times, twin %d"
                        % (cs, rs))
    elif ck != rk:
        return fail("kept-handler-count", "kept handler called %d times during the operation, twin %d"
                    % (ck, rk))
    if co > ro:
        return fail("dying-owner-called-more-than-twin", "%d > %d" % (co, ro))
    if ch2 != rh2:
        return fail("other-handler-count", "%d != %d" % (ch2, rh2))
    gc.collect()
    if any(v() is not None for v in w["victims"]):
        return fail("victim-kept-alive", "a dropped %s survived a full collection" % victim)
    ctx.count("gcpoint_victims_died", len(w["victims"]))
    # ---- afterwards ------------------------------------------------------------------
    for name in ("klog", "olog", "h2log"):
        del w[name][:]
    if "s_log" in w:
        del w["s_log"][:]
    leaf = w["leaf"]
    if op == "link-change":
        # the matched leaf moved with the link
        leaf = w["leaf2"] if expr == "child.child.value" else w["r"].child if expr != "[child,children.items].value" else leaf
    try:
        leaf.value = leaf.value + 1
    except Exception as e:
        return fail("afterwards/raised/%s" % type(e).__name__, "%r" % (e,))
    if CHAN or UNRAISABLE:
        return fail("afterwards/exception-channel/%s" % (CHAN + UNRAISABLE)[0], "%r" % (CHAN + UNRAISABLE,))
    if w["olog"]:
        return fail("afterwards/dead-owner-called", "the collected owner's method was called")
    if w["root_dies"]:
        if w["klog"]:
            return fail("afterwards/dead-root-handler-called", "handler of a collected root was called")
        if len(w["s_log"]) != 1:
            return fail("afterwards/surviving-root-handler-count", "%d != 1" % len(w["s_log"]))
    else:
        if len(w["klog"]) != 1:
            return fail("afterwards/kept-handler-count", "kept handler called %d times for one matched change"
                        % len(w["klog"]))
        r, h2 = w["r"], w["h2"]
        if op == "add-other":
            if len(w["h2log"]) != 1:
                return fail("afterwards/registered-handler-count",
                            "handler registered during the collection called %d times" % len(w["h2log"]))
            try:
                r.observe(h2, expr, remove=True)
            except Exception as e:
                return fail("afterwards/removal-raised/%s" % type(e).__name__, "%r" % (e,))
            ctx.count("gcpoint_registrations_during_collection")
        if op in ("add-other", "remove-other"):
            del w["h2log"][:]
            leaf.value = leaf.value + 1
            if w["h2log"]:
                return fail("afterwards/removed-handler-called", "%d" % len(w["h2log"]))
            try:
                r.observe(h2, expr, remove=True)
                return fail("afterwards/extra-removal-succeeded", "no NotifierNotFound")
            except NotifierNotFound:
                pass
            except Exception as e:
                return fail("afterwards/extra-removal-raised/%s" % type(e).__name__, "%r" % (e,))
            if op == "remove-other":
                ctx.count("gcpoint_removals_during_collection")
    ctx.count("gcpoint_afterwards_checked")
    return n


def run(ctx):
    if not AVAILABLE:
        ctx.count("gcpoint_unavailable")
        return
    P = Points.get([PKG])
    push_exception_handler(_legacy_exc, reraise_exceptions=False, main=True)
    obs_push(_obs_exc)
    old_hook = sys.unraisablehook
    sys.unraisablehook = _unraisable
    was = gc.isenabled()
    gc.disable()
    try:
        i = -1
        limit = (6 if ctx.tier == "quick" else 24) if getattr(ctx, "factor", 1.0) != 1.0 else None
        for victim in VICTIMS:
            for expr in EXPRS:
                for op in OPS:
                    i += 1
                    if not ctx.mine(i):
                        continue
                    if limit is not None:
                        if limit == 0 or (i // ctx.nshards) % 2 != ctx.seed % 2:
                            continue
                        limit -= 1
                    ref = {}
                    if not ctx.begin("gcp:%s:%s:%s" % (victim, expr, op),
                                     {"stratum": "gcpoints", "victim": victim, "expression": expr, "op": op}):
                        continue
                    try:
                        n = _one(ctx, P, victim, expr, op, None, ref)
                        if not n or ref.get("bad"):
                            ctx.count("gcpoint_combinations_without_operation")
                            continue
                        ctx.count("gcpoint_scenarios")
                        ctx.count("gcpoint_points_enumerated", n)
                        for k in range(1, n + 1):
                            if _one(ctx, P, victim, expr, op, k, ref) is False:
                                break
                        if i % 40 == 0:
                            ctx.sample({"stratum": "gcpoints", "victim": victim, "expression": expr, "op": op,
                                        "points": n, "history": [
                                            "observe(owner.method / kept function, expr); victims made cyclic garbage",
                                            "operation with gc.collect() before statement k of the traits package, k = 1..%d" % n,
                                            "compare call counts with the twin; final collection; follow-up change, removal, extra removal"]})
                    finally:
                        ctx.end()
        pts = ctx.notes.pop("_pts", set())
        ctx.count("gcpoint_distinct_effective_lines", len(pts))
        ctx.notes["gcpoint_lines_sample_shard%d" % ctx.shard] = sorted("%s:%d" % p for p in pts)[:12]
    finally:
        if was:
            gc.enable()
        sys.unraisablehook = old_hook
        try:
            pop_exception_handler()
            obs_pop()
        except Exception:
            pass
