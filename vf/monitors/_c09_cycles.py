"""C09 stratum "cycles": weakness when a registration is part of a reference CYCLE.

"Registrations never keep the observed object ... alive" must also hold when the handler is held
strongly by the registration (a plain function, closure, lambda, functools.partial, callable object)
and itself refers back into the observed graph: to the object observe() was called on, to an object
on the observed path, to an item of an observed container, to the container, or - the everyday form -
by storing the change events it receives (every event refers to the object that changed).  Then

    observed object -> ... -> registration -> handler -> ... -> observed object

is an ordinary reference cycle: nothing dies when the last outside reference is dropped, and the
cyclic collector has to be able to reclaim the whole island.  The other weakness runs of c09.py use
module-level functions and bound methods, which close no cycle.

Every case is built inside a helper whose frame is gone before anything is judged and which hands
back weak references only (a local `del` of a name a nested handler closes over would empty the
closure cell and break the very cycle under test).  ENUMERATED: handler form x what the handler
refers to x expression; drawn per case: dispatch, number of registrations n in 1..3, number of
unregistrations 0..n (n: the control "fully unregistered"), a failed registration in between, a
graph mutation before the drop, who else is retained (nobody / an object next to, never on, the
observed path).

Oracle: the handler was called once per matched change while registered; after the drop and
gc.collect() every HasTraits object of the island (root, objects on the path) is dead; afterwards
changing the retained bystander raises nothing, reports nothing and calls nothing.
Keys: weak/cycle/<target|path-object|owner>-kept-alive, weak/cycle/<what>.
"""
import functools
import gc
import weakref

from traits.api import HasTraits, Int, Instance, List, Dict, Set, Str, Any

FORMS = ("closure", "default-argument", "partial", "callable-object", "function-attribute",
         "closure-over-container", "stores-events", "stores-events-in-target", "controller-method")
REFERENTS = ("root", "path-object", "item-object", "deep-object", "observed-container")
EXPRS = ("value", "child.value", "child:value", "children.items.value", "cmap.items.value",
         "cset.items.value", "child.child.value", "[child,children.items].value", "*", "child.*",
         "+tag", "children.items", "child.[value,other]", "children.items.children.items.value",
         "children", "child")
BAD_EXPRS = ("nope", "child.nope", "children.items.nope", "child.child.nope")


class CNode(HasTraits):
    value = Int
    other = Int
    tagged = Int(tag=True)
    child = Instance(HasTraits)
    other_child = Instance(HasTraits)
    children = List(Instance(HasTraits))
    cmap = Dict(Str, Instance(HasTraits))
    cset = Set(Instance(HasTraits))
    bag = Any


class CallableHandler:
    def __init__(self, ref, hits):
        self.ref = ref
        self.hits = hits

    def __call__(self, event):
        self.hits[0] += 1


class Controller:
    """A bound-method owner that belongs to the graph it observes (model <-> controller)."""

    def __init__(self, model, hits):
        self.model = model
        self.hits = hits

    def on_event(self, event):
        self.hits[0] += 1


def _plain(ref, hits, event):
    hits[0] += 1


def make_handler(form, ref, hits, root):
    if form == "closure":
        def handler(event):
            ref
            hits[0] += 1
        return handler
    if form == "default-argument":
        return lambda event, _ref=ref: hits.__setitem__(0, hits[0] + 1)
    if form == "partial":
        return functools.partial(_plain, ref, hits)
    if form == "callable-object":
        return CallableHandler(ref, hits)
    if form == "function-attribute":
        def handler(event):
            hits[0] += 1
        handler.ref = ref
        return handler
    if form == "closure-over-container":
        box = {"refs": [ref]}

        def handler(event):
            box["refs"]
            hits[0] += 1
        return handler
    if form == "stores-events":
        log = []

        def handler(event):
            log.append(event)
            hits[0] += 1
        return handler
    if form == "stores-events-in-target":
        def handler(event, _log=root.__dict__.setdefault("_event_log", [])):
            _log.append(event)
            hits[0] += 1
        return handler
    raise AssertionError(form)


def build(rng, form, referent, expr, disp, n, k, fail_between, mutate, bystander_mode, hits):
    """Everything is local to this frame; returns (weak refs, bystander or None, problem or None)."""
    kids = [CNode() for _ in range(4)]
    for kid in kids:
        kid.children, kid.cmap, kid.cset
        kid.value = 1
    kids[0].child = kids[2]
    kids[0].children = [kids[2], kids[3]]
    kids[1].children = [kids[3]]
    root = CNode()
    root.child = kids[0]
    root.children = [kids[0], kids[1], kids[0]]
    root.cmap = {"a": kids[1]}
    root.cset = {kids[0]}
    root.value = 1
    bystander = CNode()
    bystander.value = 1
    root.other_child = bystander                 # next to the observed path, never on it
    ref = {"root": root, "path-object": kids[0], "item-object": kids[1], "deep-object": kids[2],
           "observed-container": root.children}[referent]
    refs = {"target": weakref.ref(root)}
    for i, kid in enumerate(kids):
        refs["path-object %d" % i] = weakref.ref(kid)
    if form == "controller-method":
        owner = Controller(ref, hits)
        root.bag = owner                          # the graph keeps its controller alive, and vice versa
        refs["owner"] = weakref.ref(owner)
        get = lambda: owner.on_event             # noqa: E731 - a fresh bound method every time
    else:
        handler = make_handler(form, ref, hits, root)
        get = lambda: handler                    # noqa: E731
    problem = None
    try:
        for _ in range(n):
            root.observe(get(), expr, dispatch=disp)
        if fail_between:
            try:
                root.observe(get(), rng.choice(BAD_EXPRS), dispatch=disp)
            except Exception:                    # noqa: BLE001 - expected; atomicity is judged elsewhere
                pass
        for _ in range(k):
            root.observe(get(), expr, dispatch=disp, remove=True)
        # one change of everything the expressions can match: the registration is in place
        # (and the event-storing handlers now hold events)
        before = hits[0]
        root.value += 1
        root.tagged += 1
        kids[0].value += 1
        kids[1].value += 1
        kids[2].value += 1
        root.children.append(kids[3])
        root.child = kids[1]
        root.child = kids[0]
        root.children = [kids[0], kids[1]]
        called = hits[0] - before
        if k < n and called == 0:
            problem = ("no-call-while-registered",
                       "registered %d time(s), unregistered %d time(s): a change of every matched trait "
                       "called the handler 0 times" % (n, k))
        if k == n and called:
            problem = ("call-after-unregistration",
                       "registered and unregistered %d time(s): %d call(s) afterwards" % (n, called))
        if mutate:
            # objects leave the graph while registered; they are dropped with everything else
            root.child = kids[3]
            root.children = [kids[1]]
            root.cmap = {}
            root.cset = set()
            kids[3].value += 1
    except Exception as e:                       # noqa: BLE001
        problem = ("setup-raised/%s" % type(e).__name__,
                   "registering / changing on a dedicated graph raised %r" % (e,))
    return refs, (bystander if bystander_mode else None), problem


def cycle_case(ctx, ch, form, referent, expr, variant):
    rng = ctx.rng("CY", form, referent, expr, variant)
    disp = "same" if rng.random() < 0.6 else "ui"
    n = rng.choice([1, 1, 2, 3])
    k = rng.choice([0, 0, 0, 0, n, rng.randint(0, n)])
    fail_between = rng.random() < 0.2
    mutate = rng.random() < 0.3
    bystander_mode = rng.random() < 0.4
    hits = [0]
    desc = {"handler_form": form, "handler_refers_to": referent, "expression": expr, "dispatch": disp,
            "registered": n, "unregistered": k, "failed_registration_in_between": fail_between,
            "graph_mutation_before_drop": mutate,
            "retained": "root.other_child (not on the observed path)" if bystander_mode else "nothing",
            "history": ["build graph + handler inside a helper", "observe x%d" % n, "remove x%d" % k,
                        "change every matched trait once", "helper returns weak references only",
                        "gc.collect()"]}
    refs, bystander, problem = build(rng, form, referent, expr, disp, n, k, fail_between, mutate,
                                     bystander_mode, hits)
    ch.drain()
    del ch.captured[:]
    ctx.ev()
    ctx.count("cycle_cases")
    in_place = k < n
    if in_place:
        ctx.count("cycle_cases_registration_in_place")
    if problem is not None:
        ctx.violation("weak/cycle/" + problem[0], "%s (%r)" % (problem[1], desc), desc)
        return
    alive_before = sorted(name for name, r in refs.items() if r() is not None)
    if alive_before:
        ctx.count("cycle_cases_alive_until_collected")   # a genuine cycle: refcounts did not free it
        if in_place:
            ctx.count("cycle_through_registration_cases")
    if "target" in alive_before and in_place:
        ctx.count("cycle_through_registration_holding_the_target")
    gc.collect()
    ctx.ev()
    ctx.count("weak_deaths_checked")
    ctx.count("cycle_deaths_checked")
    ctx.sig("cycles", form, referent, expr, disp, min(n, 2), "in-place" if in_place else "unregistered",
            mutate, bystander_mode, "target" in alive_before)
    alive = sorted(name for name, r in refs.items() if r() is not None)
    if alive:
        who = "target" if "target" in alive else ("owner" if "owner" in alive else "path-object")
        ctx.violation("weak/cycle/%s-kept-alive" % who,
                      "after the last outside reference was dropped and gc.collect() ran, still alive: %s "
                      "-- handler form %s referring to the %s, observe(handler, %r, dispatch=%r) x%d, "
                      "removed x%d" % (alive, form, referent, expr, disp, n, k), desc)
        return
    if bystander is not None:
        before = hits[0]
        try:
            bystander.value += 1
            bystander.other += 1
            bystander.child = None
            bystander.children = []
        except Exception as e:                   # noqa: BLE001
            ctx.violation("weak/cycle/change-raised-after-death/%s" % type(e).__name__,
                          "after the observed graph was collected a change of an object it referred to "
                          "raised %r" % (e,), desc)
            return
        ch.drain()
        ctx.ev()
        if hits[0] != before:
            ctx.violation("weak/cycle/call-after-death", "%d handler call(s) after the observed graph was "
                          "collected" % (hits[0] - before), desc)
            return
        if ch.captured:
            cap = list(ch.captured)
            del ch.captured[:]
            ctx.violation("weak/cycle/exception-channel-after-death/%s" % cap[0][1],
                          "exception channel after the observed graph was collected: %r" % cap[:3], desc)
            return
        ctx.count("cycle_bystander_checks")
    ctx.count("cycle_cases_held")


def run(ctx, ch, guarded):
    """ch: the Channels object of c09 (queueing UI handler, exception channels); guarded: c09.guarded."""
    exprs = EXPRS[:8] if ctx.quick else EXPRS
    nvar = ctx.scale(1, 6)
    idx = 0
    for form in FORMS:
        for referent in REFERENTS:
            idx += 1
            if not ctx.mine(idx):
                continue
            if not ctx.begin("CY:%s:%s" % (form, referent)):
                continue
            try:
                for ei, expr in enumerate(exprs):
                    for v in range(nvar):
                        guarded(ctx, cycle_case, ch, form, referent, expr, v,
                                gc_hard=((idx + ei + v) % 4 == 3))
            finally:
                ctx.end()
    ctx.sample({"stratum": "cycles", "handler_form": "closure", "handler_refers_to": "root",
                "history": ["def make(): root = ...; def handler(event): root ...; "
                            "root.observe(handler, 'child.value'); return weakref.ref(root)",
                            "ref = make()", "gc.collect()", "ref() is None"]})
