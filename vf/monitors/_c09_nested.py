"""C09 stratum "nested": expressions that go through the items of a container into ANOTHER container.

Dict(K, List(X)), Dict(K, Dict(K2, X)), Dict(K, Set(X)), List(List(X)), List(Dict(K, X)) with X an
object or a number, observed with 'name.items.items[.value]' in every notify / quiet / explicit
(dict_items().list_items()) / optional form, plus a dict of objects whose class compares by content.
The inner containers compare by CONTENT, so the graph mutations of this stratum include the ones
no container of objects can express: a key or slot is given a NEW container that equals the one it
replaces (copy, the very same object handed back, whole-slice / update() / |= / whole-trait
assignment of equal content), next to unequal replacements, new / deleted keys, equal siblings, and
mutations of the inner containers themselves.

Every container that ever was in the graph is kept: after each step one change is made to inner
containers that are in the graph (the model says who is called) AND to containers that left it
("retired": nobody may be called, nothing may stay attached to them), and the items put into either
are probed like every other object.  The model, the census and the add / remove oracle are those of
c09.py (Session); an inner container is an observable named by identity.

Two parts: random histories (add / remove / failing add / outer mutation / gc interleaved), and an
ENUMERATION: container kind x replacement operation x registration count x handler kind x dispatch,
each "register n times, replace by an equal-but-new value, probe the new and the replaced container,
unregister n times (census == initial), once more (NotifierNotFound)".
"""
import collections
import gc

OUTER = collections.OrderedDict([
    # name: (outer kind, inner kind, leaf kind)
    ("groups", ("D", "L", "node")), ("table", ("D", "D", "node")), ("packs", ("D", "S", "node")),
    ("rows", ("L", "L", "node")), ("lmaps", ("L", "D", "node")), ("numbers", ("D", "L", "int")),
    ("grid", ("L", "L", "int")), ("tmap", ("D", None, "node")),
])
KEYS = ("a", "b", "c", "d")


# ---------------------------------------------------------------------------
# pool
# ---------------------------------------------------------------------------
class Pool:
    pass


def make_inner(rng, P, name, nonempty=False):
    """Plain Python content for one inner container of hub.<name>."""
    outer, inner, leaf = OUTER[name]
    lo = 1 if nonempty else 0
    if leaf == "int":
        return [rng.randrange(3) for _ in range(rng.randint(lo, 3))]
    if inner == "L":
        return [rng.choice(P.leaves) for _ in range(rng.randint(lo, 3))]
    if inner == "D":
        return {k: rng.choice(P.leaves) for k in rng.sample(("x", "y", "z"), rng.randint(lo, 2))}
    if inner == "S":
        return set(rng.sample(P.plain, rng.randint(lo, 2)))
    return rng.choice(P.leaves)                   # tmap: the value is an object


def copy_of(v):
    """An equal but new plain value (for tmap: the object itself - see twin_of)."""
    if isinstance(v, list):
        return list(v)
    if isinstance(v, dict):
        return dict(v)
    if isinstance(v, (set, frozenset)):
        return set(v)
    return v


def build(M, rng, full=False):
    P = Pool()
    P.hubs = [M.Hub(sn=0), M.Hub(sn=1)]
    P.plain = [M.Node(sn=2 + i) for i in range(4)]
    P.twins = [M.Twin(sn=6), M.Twin(sn=7)]        # equal to each other, distinct objects
    P.leaves = P.plain + P.twins
    for o in P.leaves:                            # warm-up as in build_pool
        o.children, o.cmap, o.cset, o.child, o.other_child, o.bag
        o.value = 10 * M.sn_of(o)
        o.other = 10 * M.sn_of(o) + 1
        o.tagged = 10 * M.sn_of(o) + 2
    for hub in P.hubs:
        hub.value = hub.other = hub.tagged = 0
        hub.child
        for name, (outer, inner, leaf) in OUTER.items():
            n = rng.randint(1, 3) if full else rng.randint(0, 3)
            if outer == "D":
                val = {k: make_inner(rng, P, name, nonempty=full) for k in KEYS[:n]}
            else:
                val = [make_inner(rng, P, name, nonempty=full) for _ in range(n)]
                if n >= 2 and rng.random() < 0.4:
                    val[1] = copy_of(val[0])      # equal siblings
            if inner is None and full:
                val["a"] = P.twins[0]
            setattr(hub, name, val)
        hub.pal = rng.choice(P.twins + [None, P.plain[0]]) if not full else P.twins[0]
    P.hubs[0].child = P.hubs[1]
    P.objs = P.hubs + P.leaves
    return P


def containers_of(M, hubs):
    """id -> (container, role, trait name), for every container (outer and inner) now in the graph."""
    kinds = (M.TraitList, M.TraitDict, M.TraitSet)
    out = {}
    for hub in hubs:
        for name in OUTER:
            v = hub.__dict__.get(name)
            if not isinstance(v, kinds):
                continue
            out[id(v)] = (v, "outer", name)
            for w in (v.values() if isinstance(v, M.TraitDict) else v):
                if isinstance(w, kinds):
                    out[id(w)] = (w, "inner", name)
    return out


def inner_containers(M, hubs):
    """[(hub, name, container)] for the inner containers now in the graph (tmap has none)."""
    kinds = (M.TraitList, M.TraitDict, M.TraitSet)
    out = []
    for hub in hubs:
        for name in OUTER:
            v = hub.__dict__.get(name)
            if isinstance(v, kinds) and not isinstance(v, M.TraitSet):
                for w in (v.values() if isinstance(v, M.TraitDict) else v):
                    if isinstance(w, kinds):
                        out.append((hub, name, w))
    return out


# ---------------------------------------------------------------------------
# expressions
# ---------------------------------------------------------------------------
def catalogue(M):
    E, t, items, li, di, si, V = M.Entry, M.t, M.items, M.li, M.di, M.si, M.V
    ok = []
    through = []                                  # go through the items of the outer container

    def add(e, thr=True):
        ok.append(e)
        if thr:
            through.append(e)
    for name, (outer, inner, leaf) in OUTER.items():
        if inner is None:
            add(E(name + ".items.value", [t(name, items(V))]))
            add(E(name + ":items:value", [t(name, items(V, notify=False), notify=False)]))
            add(E("x:%s.dict.value" % name, [t(name, di(V))]))
            continue
        if leaf == "node":
            add(E(name + ".items.items.value", [t(name, items(items(V)))]))
            add(E(name + ":items:items:value",
                  [t(name, items(items(V, notify=False), notify=False), notify=False)]))
        add(E(name + ".items.items", [t(name, items(items()))]))
        add(E(name + ":items:items", [t(name, items(items(), notify=False), notify=False)]))
        add(E(name + ".items", [t(name, items())]), thr=False)
        fo = {"D": di, "L": li}[outer]
        fi = {"D": di, "L": li, "S": si}[inner]
        kids = (V,) if leaf == "node" else ()
        add(E("x:%s.%s.%s" % (name, outer, inner), [t(name, fo(fi(*kids)))]))
        if kids:
            add(E("x:%s:%s:%s" % (name, outer, inner),
                  [t(name, fo(fi(V, notify=False), notify=False), notify=False)]))
        else:
            add(E("x:%s:%s:%s" % (name, outer, inner), [t(name, fo(fi(), notify=False), notify=False)]))
        wrong = {"L": di, "D": li, "S": li}[inner]
        add(E("x:%s.%s.wrong?" % (name, outer), [t(name, fo(wrong(*kids, optional=True)))]), thr=False)
    G = lambda name: t(name, items(items(V)))    # noqa: E731
    add(E("[groups,table].items.items.value", [G("groups"), G("table")],
          text="[groups,table].items.items.value"))
    add(E("groups.items.items.value, rows.items.items.value", [G("groups"), G("rows")]))
    add(E("child.groups.items.items.value", [t("child", G("groups"))]))
    add(E("child.rows.items.items.value", [t("child", G("rows"))]))
    add(E("child.numbers:items:items", [t("child", t("numbers", items(items(), notify=False), notify=False))]))
    add(E("l:[lmaps.., packs..]", [G("lmaps"), G("packs")], form="exprlist"))
    add(E("pal.value", [t("pal", V)]), thr=False)
    add(E("pal:value", [t("pal", V, notify=False)]), thr=False)
    add(E("child.pal.value", [t("child", t("pal", V))]), thr=False)
    add(E("pal.cmap.items.value", [t("pal", t("cmap", items(V)))]), thr=False)
    add(E("value", [t("value")]), thr=False)
    add(E("+tag", [M.meta("tag")]), thr=False)
    bad = [
        E("groups.items.value", [t("groups", items(V))]),
        E("rows.items.value", [t("rows", items(V))]),
        E("numbers.items.items.value", [t("numbers", items(items(V)))]),
        E("x:groups.dict.dict.value", [t("groups", di(di(V)))]),
        E("x:rows.list.set", [t("rows", li(si()))]),
        E("x:table.dict.list", [t("table", di(li()))]),
        E("child.groups.items.nope", [t("child", t("groups", items(t("nope"))))]),
    ]
    return ok, through, bad


# ---------------------------------------------------------------------------
# graph mutations
# ---------------------------------------------------------------------------
OUTER_DICT_OPS = ("set-equal-new", "set-equal-new", "set-same-object", "set-other", "set-new-key", "del",
                  "pop", "update-mixed", "update-equal-new", "ior-equal-new", "setdefault-new", "clear",
                  "assign-equal", "assign-other")
OUTER_LIST_OPS = ("slot-equal-new", "slot-equal-new", "slot-same-object", "slot-other", "append",
                  "append-equal-sibling", "insert", "pop", "del", "slice-equal-new", "slice-other",
                  "whole-slice-equal-new", "assign-equal", "assign-other")
EQUAL_OPS = ("set-equal-new", "set-same-object", "update-equal-new", "ior-equal-new", "assign-equal",
             "slot-equal-new", "slot-same-object", "slice-equal-new", "whole-slice-equal-new",
             "set-equal-twin")


def twin_of(P, v):
    """For the dict of objects: another object that EQUALS v (None when v has no equal)."""
    if v is P.twins[0]:
        return P.twins[1]
    if v is P.twins[1]:
        return P.twins[0]
    return None


def equal_new(P, name, v):
    """A new value that EQUALS v and is not v (None when there is none)."""
    if OUTER[name][1] is None:
        return twin_of(P, v)
    return copy_of(v)


def has_equal(P, name, v):
    return OUTER[name][1] is not None or twin_of(P, v) is not None


def other_than(rng, P, name, cur):
    for _ in range(8):
        new = make_inner(rng, P, name)
        if OUTER[name][1] is None:
            if new is not cur and not (new == cur):
                return new
        elif new != cur:
            return new
    return None


def outer_mutation(rng, P, hub, name, op):
    """(description, observables fired, action, op) or None when the op cannot certainly change
    something here."""
    outer, inner, leaf = OUTER[name]
    s = hub.__dict__["sn"]
    c = getattr(hub, name)
    ob_c = [("c", s, name)]
    ob_t = [("t", s, name)]
    where = "#%d.%s" % (s, name)
    if op in ("assign-equal", "assign-other"):
        if op == "assign-equal":
            if outer == "D":
                new = {k: (equal_new(P, name, v) if has_equal(P, name, v) else v) for k, v in c.items()}
            else:
                new = [copy_of(v) for v in c]
            txt = "a new, equal %s" % ("dict" if outer == "D" else "list")
        else:
            n = rng.randint(0, 3)
            if outer == "D":
                new = {k: make_inner(rng, P, name) for k in KEYS[:n]}
            else:
                new = [make_inner(rng, P, name) for _ in range(n)]
            txt = "other content (%d entries)" % n
            if new == c:
                return None
        # the container traits compare by equality: assigning an equal value replaces the container
        # but is no change of the trait (no call for the trait itself; what follows is judged as ever)
        return ("%s = %s" % (where, txt), [] if op == "assign-equal" else ob_t,
                lambda: setattr(hub, name, new), op, name)
    if outer == "D":
        present = sorted(c)
        absent = [k for k in KEYS if k not in c]
        if op in ("set-equal-new", "set-same-object", "set-other", "del", "pop", "update-equal-new",
                  "ior-equal-new", "clear") and not present:
            return None
        if op in ("set-equal-new", "update-equal-new", "ior-equal-new"):
            present = [k for k in present if has_equal(P, name, c[k])]
            if not present:
                return None
        if op == "set-equal-new":
            k = rng.choice(present)
            new = equal_new(P, name, c[k])
            tag = "set-equal-twin" if inner is None else op
            return ("%s[%r] = an equal, new value" % (where, k), ob_c, lambda: c.__setitem__(k, new), tag, name)
        if op == "set-same-object":
            k = rng.choice(present)
            return ("%s[%r] = %s[%r]" % (where, k, where, k), ob_c, lambda: c.__setitem__(k, c[k]), op, name)
        if op == "set-other":
            k = rng.choice(present)
            new = other_than(rng, P, name, c[k])
            if new is None:
                return None
            return ("%s[%r] = other content" % (where, k), ob_c, lambda: c.__setitem__(k, new), op, name)
        if op in ("set-new-key", "setdefault-new"):
            if not absent:
                return None
            k = absent[0]
            new = make_inner(rng, P, name)
            if present and rng.random() < 0.5:
                new = copy_of(c[rng.choice(present)])     # equal to a sibling
            if op == "set-new-key":
                return ("%s[%r] = ... (new key)" % (where, k), ob_c, lambda: c.__setitem__(k, new), op, name)
            return ("%s.setdefault(%r, ...) (new key)" % (where, k), ob_c, lambda: c.setdefault(k, new), op, name)
        if op == "del":
            k = rng.choice(present)
            return ("del %s[%r]" % (where, k), ob_c, lambda: c.__delitem__(k), op, name)
        if op == "pop":
            k = rng.choice(present)
            return ("%s.pop(%r)" % (where, k), ob_c, lambda: c.pop(k), op, name)
        if op == "clear":
            return ("%s.clear()" % where, ob_c, lambda: c.clear(), op, name)
        if op in ("update-equal-new", "ior-equal-new"):
            ks = rng.sample(present, rng.randint(1, len(present)))
            upd = {}
            for k in ks:
                upd[k] = equal_new(P, name, c[k])
            if op == "ior-equal-new" and hasattr(type(c), "__ior__"):
                return ("%s |= {equal, new values for %r}" % (where, ks), ob_c, lambda: c.__ior__(upd), op, name)
            return ("%s.update({equal, new values for %r})" % (where, ks), ob_c, lambda: c.update(upd),
                    "update-equal-new", name)
        if op == "update-mixed":
            upd = {}
            for k in KEYS:
                r = rng.random()
                if k in c and r < 0.35:
                    new = equal_new(P, name, c[k])
                    if new is not None:
                        upd[k] = new
                elif r < 0.6:
                    upd[k] = make_inner(rng, P, name)
            if not upd:
                return None
            return ("%s.update({%s})" % (where, ", ".join("%r: ..." % k for k in sorted(upd))), ob_c,
                    lambda: c.update(upd), op, name)
        raise AssertionError(op)
    L = len(c)
    if op in ("slot-equal-new", "slot-same-object", "slot-other", "pop", "del", "append-equal-sibling") and not L:
        return None
    if op == "slot-equal-new":
        i = rng.randrange(L)
        new = copy_of(c[i])
        return ("%s[%d] = an equal, new value" % (where, i), ob_c, lambda: c.__setitem__(i, new), op, name)
    if op == "slot-same-object":
        i = rng.randrange(L)
        return ("%s[%d] = %s[%d]" % (where, i, where, i), ob_c, lambda: c.__setitem__(i, c[i]), op, name)
    if op == "slot-other":
        i = rng.randrange(L)
        new = other_than(rng, P, name, c[i])
        if new is None:
            return None
        return ("%s[%d] = other content" % (where, i), ob_c, lambda: c.__setitem__(i, new), op, name)
    if op in ("append", "insert"):
        new = make_inner(rng, P, name)
        if op == "append":
            return ("%s.append(...)" % where, ob_c, lambda: c.append(new), op, name)
        return ("%s.insert(0, ...)" % where, ob_c, lambda: c.insert(0, new), op, name)
    if op == "append-equal-sibling":
        new = copy_of(c[rng.randrange(L)])
        return ("%s.append(a copy of one of its entries)" % where, ob_c, lambda: c.append(new), op, name)
    if op == "pop":
        return ("%s.pop()" % where, ob_c, lambda: c.pop(), op, name)
    if op == "del":
        return ("del %s[0]" % where, ob_c, lambda: c.__delitem__(0), op, name)
    if op in ("slice-equal-new", "slice-other", "whole-slice-equal-new"):
        if op == "whole-slice-equal-new":
            i, j = 0, L
        elif op == "slice-equal-new":
            if not L:
                return None
            i = rng.randint(0, L - 1)
            j = rng.randint(i + 1, L)
        else:
            i = rng.randint(0, L)
            j = rng.randint(i, L)
        if op == "slice-other":
            new = [make_inner(rng, P, name) for _ in range(rng.randint(0, 2))]
            if i == j and not new:
                return None
            if new == list(c[i:j]):
                return None
            return ("%s[%d:%d] = other content (%d)" % (where, i, j, len(new)), ob_c,
                    lambda: c.__setitem__(slice(i, j), new), op, name)
        if i == j:
            return None
        new = [copy_of(v) for v in c[i:j]]
        return ("%s[%d:%d] = equal, new values" % (where, i, j), ob_c,
                lambda: c.__setitem__(slice(i, j), new), op, name)
    raise AssertionError(op)


def link_mutation(rng, P, hub):
    """hub.pal is given an equal but distinct object / another object / None."""
    s = hub.__dict__["sn"]
    cur = hub.__dict__.get("pal")
    tw = twin_of(P, cur)
    if tw is not None and rng.random() < 0.6:
        # Instance traits compare by equality: no change of the trait, yet the object is replaced
        return ("#%d.pal = #%d (equal to the current one, another object)" % (s, tw.__dict__["sn"]), [],
                lambda: setattr(hub, "pal", tw), "link-equal-twin", "pal")
    cands = [x for x in P.plain[:2] + P.twins + [None] if x is not cur and not (x == cur)]
    new = rng.choice(cands)
    return ("#%d.pal = %s" % (s, "None" if new is None else "#%d" % new.__dict__["sn"]), [("t", s, "pal")],
            lambda: setattr(hub, "pal", new), "link-other", "pal")


def inner_mutation(rng, P, M, w, leaf):
    """One change of an inner container that certainly fires.  (description, action)."""
    if isinstance(w, M.TraitList):
        x = rng.randrange(3) if leaf == "int" else rng.choice(P.leaves)
        k = rng.randrange(6)
        if k == 0 or not len(w):
            return ("append", lambda: w.append(x))
        if k == 1:
            return ("insert(0)", lambda: w.insert(0, x))
        if k == 2:
            return ("pop()", lambda: w.pop())
        if k == 3:
            i = rng.randrange(len(w))
            return ("[%d] = ..." % i, lambda: w.__setitem__(i, x))
        if k == 4:
            return ("[:] = the same items", lambda: w.__setitem__(slice(None), list(w)))
        return ("extend", lambda: w.extend([x, x] if leaf == "int" else [x, rng.choice(P.leaves)]))
    if isinstance(w, M.TraitDict):
        x = rng.choice(P.leaves)
        if w and rng.random() < 0.3:
            k = sorted(w)[0]
            return ("del [%r]" % k, lambda: w.__delitem__(k))
        k = rng.choice(("x", "y", "z", "w"))
        return ("[%r] = ..." % k, lambda: w.__setitem__(k, x))
    free = [x for x in P.plain if x not in w]
    if free and (not w or rng.random() < 0.6):
        x = rng.choice(free)
        return ("add", lambda: w.add(x))
    y = sorted(w, key=M.sn_of)[0]
    return ("remove", lambda: w.remove(y))


def apply_outer(S, P, M, m, rng=None):
    """Run one outer mutation through the session's oracle; retire what left the graph."""
    ctx = S.ctx
    desc, obs, action, op, name = m
    before = containers_of(M, P.hubs)
    S.trace.append(("mutate", desc))
    S.fire("mutation", obs, action, desc, thread_rng=rng, tolerate_late=True)
    m = action = None
    S.invalidate()
    after = containers_of(M, P.hubs)
    for i, (v, role, vname) in before.items():
        if i not in after:
            S.retire(v)
            P.retired_info[i] = (role, vname)
    ctx.count("mutations")
    ctx.count("nested_mutations")
    ctx.count("nested_mutations/" + op)
    if op == "link-equal-twin" and any(n > 0 and "pal" in S.graphs[gk].desc for (ri, hi, gk, d), n in S.counts.items()):
        ctx.count("nested_equal_link_replacements_while_registered")
    if op in EQUAL_OPS:
        ctx.count("nested_equal_replacements")
        if S.total():
            ctx.count("nested_equal_replacements_while_registered")
            if any(n > 0 and name in S.graphs[gk].desc and any(c in S.graphs[gk].shape for c in ("(I", "(D", "(L"))
                   for (ri, hi, gk, d), n in S.counts.items()):
                ctx.count("nested_equal_replacements_under_a_registration_through_the_container")
    ctx.sig("nested", "mutation", op, min(S.total(), 3))
    late = [gk for (kri, khi, gk, kd), n in S.counts.items() if n > 0
            and not S.analysis(kri, S.graphs[gk]).ok]
    if late:
        ctx.count("histories_ended_by_late_failure")
        return "late"
    return "ok"


def probe_inner(S, P, M, rng, live=2, retired=2, everything=False):
    """Change containers that are in the graph and containers that left it."""
    ctx = S.ctx
    inn = inner_containers(M, P.hubs)
    picks = inn if everything else (rng.sample(inn, min(live, len(inn))) if inn else [])
    for hub, name, w in picks:
        what, action = inner_mutation(rng, P, M, w, OUTER[name][2])
        desc = "#%d.%s <inner %s>.%s" % (M.sn_of(hub), name, type(w).__name__, what)
        S.trace.append(("mutate", desc))
        S.fire("mutation", [("c", "inner", id(w))], action, desc, thread_rng=None if everything else rng,
               tolerate_late=True)
        action = None
        S.invalidate()
        ctx.count("nested_inner_probes")
    # a retired outer container of containers is not changed itself: its inner ones are retired too
    rets = [v for v in S.retired
            if P.retired_info[id(v)][0] == "inner" or OUTER[P.retired_info[id(v)][1]][1] is None]
    picks = rets if everything else (rng.sample(rets, min(retired, len(rets))) if rets else [])
    for v in picks:
        what, action = inner_mutation(rng, P, M, v, OUTER[P.retired_info[id(v)][1]][2])
        desc = "<%s that left the graph>.%s" % (type(v).__name__, what)
        S.trace.append(("mutate", desc))
        S.fire("mutation", [("c", "inner", id(v))], action, desc)
        action = None
        S.invalidate()
        ctx.count("nested_retired_probes")


def new_session(ctx, M, P, stratum, extra=None):
    S = M.Session(ctx, stratum, P.objs, P.hubs, extra=extra)
    P.retired_info = {}
    S.set_base()
    return S


# ---------------------------------------------------------------------------
# random histories
# ---------------------------------------------------------------------------
def nested_history(ctx, M, h, OK, THROUGH, BAD):
    rng = ctx.rng("N", h)
    P = build(M, rng)
    S = new_session(ctx, M, P, "nested")
    mine = rng.sample(THROUGH, 3) + [rng.choice(OK)]
    pal_history = h % 5 == 3                      # the equal-object link in the foreground
    if pal_history:
        mine = [e for e in OK if "pal" in e.name][:3] + [rng.choice(THROUGH)]
    names = sorted(set(n for e in mine for n in OUTER if n in e.name)) or list(OUTER)
    start_ui = rng.choice(["A", "A", "A", "none", "B"])
    if start_ui != "A":
        S.switch_ui(start_ui)
    for step in range(14):
        r = rng.random()
        ri = 0 if rng.random() < 0.7 else 1
        hi = rng.randrange(3)
        disp = "same" if rng.random() < 0.65 else "ui"
        if r < 0.30:
            live = [k for k, n in S.counts.items() if n > 0]
            e = rng.choice(mine)
            if live and rng.random() < 0.4:
                kri, khi, gk, kd = rng.choice(live)
                cs = [c for c in mine if any(g.key == gk for g in c.graphs)]
                if cs:
                    ri, hi, disp, e = kri, khi, kd, rng.choice(cs)
            if not all(S.analysis(ri, g).ok for g in e.graphs):
                continue
            S.add(ri, hi, e, disp)
        elif r < 0.36:
            e = rng.choice(BAD)
            an = [S.analysis(ri, g) for g in e.graphs]
            if all(a.ok for a in an):
                continue
            if any((not a.ok) and a.healthy for a in an) or any(a.ok and a.attach for a in an):
                ctx.count("nested_skipped_open_pattern")
                continue
            S.add(ri, hi, e, disp)
        elif r < 0.52:
            live = [k for k, n in S.counts.items() if n > 0]
            if live and rng.random() < 0.8:
                ri, hi, gk, disp = rng.choice(live)
                cs = [c for c in mine if any(g.key == gk for g in c.graphs)]
                e = rng.choice(cs) if cs else M.Entry("single", [S.graphs[gk]], form="expr")
            else:
                e = rng.choice(mine)
            need = collections.Counter(g.key for g in e.graphs)
            have_all = all(S.counts[(ri, hi, k, disp)] >= n for k, n in need.items())
            have_any = any(S.counts[(ri, hi, k, disp)] >= 1 for k in need)
            if (have_any and not have_all) or not all(S.analysis(ri, g).ok for g in e.graphs):
                continue
            S.remove(ri, hi, e, disp)
        elif r < 0.94:
            hub = rng.choice(P.hubs)
            if rng.random() < (0.5 if pal_history else 0.06):
                m = link_mutation(rng, P, hub)
            else:
                name = rng.choice(names) if rng.random() < 0.8 else rng.choice(list(OUTER))
                ops = OUTER_DICT_OPS if OUTER[name][0] == "D" else OUTER_LIST_OPS
                m = outer_mutation(rng, P, hub, name, rng.choice(ops))
            if m is None:
                continue
            if apply_outer(S, P, M, m, rng) == "late":
                return
        else:
            S.trace.append(("gc.collect",))
            gc.collect()
        S.probe_all(rng)
        probe_inner(S, P, M, rng)
        if S.total() == 0:
            S.zero_check("step %d" % step)
    S.trace.append(("unwind",))
    last = [k for k, n in S.counts.items() if n > 0]
    S.unwind(rng)
    S.probe_all()
    probe_inner(S, P, M, rng, live=3, retired=4)
    if last:
        ri, hi, gk, disp = rng.choice(last)
        S.remove(ri, hi, M.Entry("once-more", [S.graphs[gk]], form="expr"), disp)
        S.probe_all(objs=S.roots)
    if h < 2 * ctx.nshards:
        ctx.sample({"stratum": "nested", "history": S.trace[:8]})


# ---------------------------------------------------------------------------
# enumeration: register n times, equal-but-new replacement, probe, unregister n times, once more
# ---------------------------------------------------------------------------
LITERAL_OPS = {"D": ("set-equal-new", "set-same-object", "update-equal-new", "ior-equal-new", "assign-equal"),
               "L": ("slot-equal-new", "slot-same-object", "slice-equal-new", "whole-slice-equal-new",
                     "assign-equal")}


def nested_literal(ctx, M, name, op, n, hi, disp, THROUGH):
    rng = ctx.rng("NL", name, op, n, hi, disp)
    P = build(M, rng, full=True)
    S = new_session(ctx, M, P, "nested-literal", extra={"container": name, "replacement": op})
    cands = [e for e in THROUGH if name in e.name and not e.name.startswith("child.")]
    e = rng.choice(cands)
    for _ in range(n):
        S.add(0, hi, e, disp)
    S.probe_all(rng)
    m = outer_mutation(rng, P, P.hubs[0], name, op)
    if m is None:
        ctx.count("nested_literal_not_applicable")
        S.unwind(rng)
        return
    if apply_outer(S, P, M, m) == "late":
        return
    S.probe_all()
    probe_inner(S, P, M, rng, everything=True)
    S.probe_all()
    for _ in range(n):
        S.remove(0, hi, e, disp)
    S.probe_all()
    probe_inner(S, P, M, rng, everything=True)
    S.remove(0, hi, e, disp)                      # one further unregistration
    S.probe_all()
    ctx.count("nested_literal_cases")


def link_literal(ctx, M, n, hi, disp, OK):
    """Register n times through the link, give the link an equal but distinct object, probe both
    objects, unregister n times, once more."""
    rng = ctx.rng("NLp", n, hi, disp)
    P = build(M, rng, full=True)
    S = new_session(ctx, M, P, "nested-literal", extra={"link": "pal", "replacement": "link-equal-twin"})
    e = rng.choice([e for e in OK if e.name in ("pal.value", "pal:value")])
    for _ in range(n):
        S.add(0, hi, e, disp)
    S.probe_all(rng)
    hub = P.hubs[0]
    tw = twin_of(P, hub.pal)
    m = ("#0.pal = #%d (equal to the current one, another object)" % M.sn_of(tw), [],
         lambda: setattr(hub, "pal", tw), "link-equal-twin", "pal")
    if apply_outer(S, P, M, m) == "late":
        return
    S.probe_all()
    for _ in range(n):
        S.remove(0, hi, e, disp)
    S.probe_all()
    S.remove(0, hi, e, disp)
    S.probe_all()
    ctx.count("nested_literal_cases")


def run(ctx, M):
    OK, THROUGH, BAD = catalogue(M)
    guarded = M.guarded
    # ---- enumeration ---------------------------------------------------------------
    idx = 0
    for name, (outer, inner, leaf) in OUTER.items():
        for op in LITERAL_OPS[outer]:
            idx += 1
            if not ctx.mine(idx):
                continue
            if not ctx.begin("NL:%s:%s" % (name, op)):
                continue
            try:
                for n in (1, 2):
                    for hi in range(3):
                        for disp in (("same", "ui") if not ctx.quick or (hi + n) % 2 else ("same",)):
                            guarded(ctx, nested_literal, M, name, op, n, hi, disp, THROUGH)
            finally:
                ctx.end()
    for hi in range(3):
        idx += 1
        if not ctx.mine(idx):
            continue
        if not ctx.begin("NL:pal:%d" % hi):
            continue
        try:
            for n in (1, 2):
                for disp in ("same", "ui"):
                    guarded(ctx, link_literal, M, n, hi, disp, OK)
        finally:
            ctx.end()
    ctx.sample({"stratum": "nested-literal", "history": [
        "hub.observe(h, 'groups.items.items.value') x2", "hub.groups['a'] = list(hub.groups['a'])",
        "change the list now under 'a' -> 1 call; change the replaced list -> 0 calls",
        "remove x2", "census == initial", "once more -> NotifierNotFound"]})
    # ---- random histories ------------------------------------------------------------
    nh = ctx.scale(320, 12000)
    for h in range(nh):
        if not ctx.mine(h):
            continue
        if not ctx.begin("N:%d" % h):
            continue
        try:
            guarded(ctx, nested_history, M, h, OK, THROUGH, BAD, gc_hard=(h % 12 == 5))
            ctx.count("nested_histories")
        finally:
            ctx.end()
