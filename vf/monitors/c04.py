"""C04 -- container traits never hold an invalid element or an illegal length.

Three oracles evaluated after EVERY operation of a history on `obj.xs`:

* invariant walk: every element / key / value (recursively, through nested
  containers) satisfies the small independent predicate `in_domain(spec, e)`
  written from the documentation, and is a fixed point of the inner trait's own
  `validate`; list lengths lie in minlen..maxlen; the value and every nested
  container is the traits container class bound to this owner;
* failure atomicity: an operation that would violate the invariant, or that
  the library refused with TraitError, left the value tree identical (`is`,
  element by element, recursively) and delivered ZERO notifications
  (static handlers, `_anytrait_changed`, on_trait_change 'xs'/'xs_items',
  observe 'xs' / 'xs.items' / 'xs.items.items', raw container notifiers);
* direction: when the same operation on a plain list/dict/set succeeds and
  would store an item the reference rejects, or would leave minlen..maxlen,
  the real operation must raise TraitError.

Strata (own case ids, counters and gates): main histories + list grid (`h:*`,
`grid:*`), value-dependent refinements of Base scalar traits (`r:*`, `rgrid:*`),
declared defaults and sibling owners (`dflt:*`), inner classes given by name /
forward references judged before, at and after their first resolution on early
and late owners of a freshly declared class (`lazy:*`), intersection operators
with equal-but-not-identical operands (`isect:*`).

See DESIGN.md section 4 / C04.
"""
import atexit
import gc
import operator
import os
import pathlib
import shutil
import sys
import tempfile
import weakref

from traits.api import (
    HasTraits, List, Dict, Set, Int, Float, Str, Range, Enum, Instance, Either,
    Tuple, CInt, TraitError, push_exception_handler,
    BaseInt, BaseStr, BaseFloat, BaseCInt, BaseBool, BaseBytes, File, Directory, String,
)
from traits.observation.api import (
    push_exception_handler as obs_push_exception_handler,
)
from traits.trait_list_object import TraitListObject
from traits.trait_dict_object import TraitDictObject
from traits.trait_set_object import TraitSetObject

from vf.util import same, short

try:
    import numpy as np
except Exception:  # pragma: no cover
    np = None

META = {
    "level": "exploration",
    "rule": ("cases = operations of random 20-op histories (plus a deterministic single-op grid for "
             "lists: every mutator x length in minlen..maxlen x an invalid item at every argument "
             "position) on `obj.xs` for ~60 container configurations: List(T, minlen, maxlen) with T in "
             "{Int, Float, Str, Range(0,10), Enum, Instance(X), Either(Int,None), Tuple(Int,Str), CInt, "
             "List(Int) nested, Dict(Str,Int) nested, Set(Int) nested} x bounds {(0,inf),(1,3),(2,2),"
             "(0,0),(0,2)}, Dict(K,V) incl. Dict(Str,List(Int)), Set(T); every mutator of the three "
             "container classes, in-place operators through the attribute, whole-value assignment, "
             "mutation of nested containers and of stale former values, and whole-value assignment through "
             "the constructor `Cls(xs=v)`; the owning class comes in four flavours, rotated over the "
             "histories and grid cases: plain, `__len__` = size of its container (owner falsy while empty, "
             "incl. during construction), `__bool__` False until a flag is flipped at random points, and "
             "value-based `__eq__`/`__hash__` with a second, equal owner kept around; a stratum of its own (`r:*`, `rgrid:*`; same operations, "
             "routes and owner flavours) uses ~55 configurations whose inner trait is a value-dependent "
             "refinement of a Base scalar trait: user-defined TraitType subclasses (OddInt(BaseInt) of the "
             "manual, NonEmptyStr(BaseStr), UnitFloat(BaseFloat), LowerStr(BaseStr) which converts, "
             "EvenCInt(BaseCInt), Agreed(BaseBool), ShortBytes(BaseBytes)) and the library's "
             "File(exists=True), Directory(exists=True), String(minlen,maxlen), alone, inside Tuple/Either "
             "and in nested List/Dict/Set, with argument pools rich in non-valid values of exactly the base "
             "Python type; a stratum of its own (`dflt:*`) starts from what the "
             "DECLARATION provides instead of an assigned value: for ~75 configurations (the above plus bounded "
             "and three-level nestings) the default is implicit, legal, convertible or illegal (shorter than "
             "minlen -- incl. the implicit [] of a minlen>0 list --, longer than maxlen, an invalid item, an "
             "illegal nested container, not a container), provided by the declaration, a `_xs_default` method "
             "or a subclass override; 1-3 owners of the class (some of a subclass) materialise it by read, "
             "trait_get, a listened / observed first assignment (old and new handed to the listener are "
             "walked), hooking item observers, or assign-then-del (revert to the default); whatever is stored, "
             "returned or handed out must pass the invariant walk (bound to ITS owner, at every depth), some "
             "owners are then collected, a late sibling is created, and an ordinary 8-op history runs on a "
             "survivor (nothing else is demanded of an illegal default: refusing the read is fine); "
             "a stratum of its own (`lazy:*`) gives the inner class BY NAME -- Instance('X'), a forward reference "
             "the library resolves lazily at the first validation -- in every inner position: ~50 configurations "
             "with the by-name Instance (two target classes, with / without None) as list item, set item, dict "
             "key, dict value, both, item of a nested container, dict key next to a nested container value, and "
             "Tuple / Either member inside a container, spelled as bare name (looked up in the declaring "
             "module), dotted path or bare name + module=; every case declares a NEW class (unresolved "
             "reference), creates two owners first and populates nothing (implicit default, or a legal non-empty "
             "declared default whose materialisation is then the resolving moment); ordinary histories (same "
             "generators, invariant walk, failure atomicity and direction check after every operation) run "
             "interleaved on the early owners and, from the first operation on any owner that submits an object "
             "at a by-name position (item operation, whole-value assignment or constructor keyword, carrying "
             "valid or invalid items), also on an owner created after that moment; operations are counted as "
             "before / at / after the first resolution and, after it, by owner role (the resolving owner, "
             "another owner created before, an owner created after), all owners are walked at the end; the "
             "reference is that of Instance(<class>) -- nothing depends on how the class was spelled; "
             "a separate stratum draws the set "
             "intersection operators with operands equal to, but not identical with, members (it hits "
             "an open finding and would otherwise truncate the main histories). A case is non-trivial when the "
             "operation changed the value, raised, or delivered a notification; distinct_nontrivial "
             "counts distinct (container kind, inner trait, bounds, target top/nested/stale, operation, "
             "argument class, outcome class, changed) signatures of such cases."),
    "phases": [{"name": "main", "flavour": "P", "shards": 16}],
    "gates": {
        "quick": {"evaluations": 80000, "rejections_checked": 25000, "direction_checked": 25000,
                  "length_direction_checked": 8000, "ops_succeeded": 45000, "notifications_seen": 150000,
                  "notif_static": 25000, "notif_otc": 25000, "notif_observe": 30000,
                  "notif_observe_nested": 8000, "notif_raw": 25000, "notif_anytrait": 25000,
                  "elements_walked": 250000, "nested_ops": 5000, "stale_ops": 3000, "assign_ops": 8000,
                  "list_ops": 45000, "dict_ops": 15000, "set_ops": 12000,
                  "convertible_items_stored": 4000, "grid_cases": 7000, "isect_twin_ops": 30,
                  # owner-class flavours (falsy / truthy / value-equal owners) and the constructor route
                  "flavour_len_ops": 20000, "flavour_bool_ops": 20000, "flavour_eq_ops": 20000,
                  "falsy_owner_ops": 15000, "falsy_len_owner_ops": 6000, "falsy_bool_owner_ops": 10000,
                  "falsy_list_ops": 9000, "falsy_dict_ops": 4000, "falsy_set_ops": 2500,
                  "falsy_owner_rejections": 5000, "truthy_flavoured_ops": 24000,
                  "equal_owner_ops": 10000, "equal_owner_foreign_args": 250, "construct_ops": 2500,
                  "construct_rejections": 900, "falsy_construct_ops": 1300, "built_with_keyword": 4500,
                  # stratum: declared defaults / sibling owners living on one declared default
                  "default_cases": 1600, "default_owners": 4000, "default_materialised": 2200,
                  "default_elements_walked": 38000, "default_illegal_declared": 650,
                  "default_illegal_refused": 1100, "default_class_implicit": 180,
                  "default_class_implicit-short": 45, "default_class_short": 20, "default_class_long": 45,
                  "default_class_bad-item": 200, "default_class_bad-nested": 85, "default_class_conv": 150,
                  "default_class_valid": 500, "default_provider_method": 250, "default_provider_override": 250,
                  "default_route_read": 1200, "default_route_trait_get": 550,
                  "default_route_assign-listened": 550, "default_route_assign-observed": 550,
                  "default_route_observe-items": 550, "default_route_revert": 550,
                  "default_handed_values": 2500, "default_sibling_cases": 1100,
                  "default_nested_shared_cases": 140, "default_owners_collected": 1300,
                  "default_first_owner_collected": 550, "default_late_siblings": 1100,
                  "default_subclass_owners": 800, "default_history_ops": 7000, "default_nested_ops": 600,
                  "default_rejections_checked": 2200, "default_ops_succeeded": 4000,
                  # stratum: value-dependent refinements of the Base scalar traits as inner traits
                  "refined_history_ops": 24000, "refined_grid_cases": 4000, "refined_list_ops": 15000,
                  "refined_dict_ops": 5500, "refined_set_ops": 4000, "refined_nested_ops": 1400,
                  "refined_assign_ops": 2000, "refined_construct_ops": 800,
                  "refined_rejections_checked": 8500, "refined_ops_succeeded": 15000,
                  "refined_direction_checked": 8000, "refined_convertible_items_stored": 1600,
                  "refined_elements_walked": 75000, "refined_exact_type_trap_ops": 3000,
                  "refined_exact_type_trap_rejections": 2800, "refined_exact_type_trap_list_ops": 1500,
                  "refined_exact_type_trap_dict_ops": 900, "refined_exact_type_trap_set_ops": 250,
                  "refined_exact_type_trap_nested_ops": 150, "refined_exact_type_trap_assign": 110,
                  "refined_exact_type_trap_construct": 50,
                  # stratum: inner traits whose class is given by name (forward references)
                  "lazy_cases": 750, "lazy_cases_resolved": 740, "lazy_history_ops": 11000,
                  "lazy_ops_pre": 560, "lazy_first_resolving_ops": 740,
                  "lazy_first_with_invalid_item": 300, "lazy_first_all_valid": 290,
                  "lazy_first_by_item-op": 400, "lazy_first_by_assign": 110,
                  "lazy_first_by_construct": 74, "lazy_first_by_default": 140, "lazy_ops_post": 10000,
                  "lazy_ops_post_late_owner": 3300, "lazy_ops_post_other_early_owner": 3900,
                  "lazy_ops_post_resolving_owner": 3100, "lazy_ops_post_with_named_class_item": 5400,
                  "lazy_direction_pre": 100, "lazy_direction_first": 270, "lazy_direction_post": 3500,
                  "lazy_direction_checked": 3900, "lazy_rejections_checked": 4000,
                  "lazy_ops_succeeded": 6100, "lazy_elements_walked": 29000,
                  "lazy_owners_adopted_before_first_resolution": 1000,
                  "lazy_owners_adopted_after_first_resolution": 1200, "lazy_final_walks": 2200,
                  "lazy_dict_ops": 6100, "lazy_list_ops": 2700, "lazy_set_ops": 1100,
                  "lazy_nested_ops": 480, "lazy_assign_ops": 1100, "lazy_construct_ops": 530,
                  "lazy_notifications_seen": 17000, "lazy_name_bare": 250, "lazy_name_dotted": 250,
                  "lazy_name_module": 250, "lazy_default_given": 190, "lazy_pos_dict-key": 360,
                  "lazy_pos_dict-key-with-container-value": 100, "lazy_pos_dict-value": 160,
                  "lazy_pos_either-member": 90, "lazy_pos_list-item": 210,
                  "lazy_pos_nested-dict-key": 30, "lazy_pos_nested-dict-value": 30,
                  "lazy_pos_nested-list-item": 75, "lazy_pos_nested-set-item": 30,
                  "lazy_pos_set-item": 100, "lazy_pos_tuple-member": 75},
        "thorough": {"evaluations": 2000000, "rejections_checked": 600000, "direction_checked": 500000,
                     "length_direction_checked": 150000, "ops_succeeded": 1000000,
                     "notifications_seen": 3000000, "notif_static": 600000, "notif_otc": 600000,
                     "notif_observe": 600000, "notif_observe_nested": 200000, "notif_raw": 600000,
                     "notif_anytrait": 600000, "elements_walked": 5000000, "nested_ops": 120000,
                     "stale_ops": 70000, "assign_ops": 150000, "list_ops": 1000000, "dict_ops": 400000,
                     "set_ops": 250000, "convertible_items_stored": 80000, "grid_cases": 7000,
                     "isect_twin_ops": 600,
                     "flavour_len_ops": 400000, "flavour_bool_ops": 400000, "flavour_eq_ops": 400000,
                     "falsy_owner_ops": 300000, "falsy_len_owner_ops": 120000,
                     "falsy_bool_owner_ops": 200000, "falsy_list_ops": 180000, "falsy_dict_ops": 80000,
                     "falsy_set_ops": 50000, "falsy_owner_rejections": 100000,
                     "truthy_flavoured_ops": 480000, "equal_owner_ops": 200000,
                     "equal_owner_foreign_args": 5000, "construct_ops": 50000,
                     "construct_rejections": 18000, "falsy_construct_ops": 26000,
                     "built_with_keyword": 40000,
                     # stratum: declared defaults / sibling owners living on one declared default
                     "default_cases": 40000, "default_owners": 100000, "default_materialised": 55000,
                     "default_elements_walked": 950000, "default_illegal_declared": 16250,
                     "default_illegal_refused": 27500, "default_class_implicit": 4500,
                     "default_class_implicit-short": 1125, "default_class_short": 500,
                     "default_class_long": 1125, "default_class_bad-item": 5000,
                     "default_class_bad-nested": 2125, "default_class_conv": 3750,
                     "default_class_valid": 12500, "default_provider_method": 6250,
                     "default_provider_override": 6250, "default_route_read": 30000,
                     "default_route_trait_get": 13750, "default_route_assign-listened": 13750,
                     "default_route_assign-observed": 13750, "default_route_observe-items": 13750,
                     "default_route_revert": 13750, "default_handed_values": 62500,
                     "default_sibling_cases": 27500, "default_nested_shared_cases": 3500,
                     "default_owners_collected": 32500, "default_first_owner_collected": 13750,
                     "default_late_siblings": 27500, "default_subclass_owners": 20000,
                     "default_history_ops": 175000, "default_nested_ops": 15000,
                     "default_rejections_checked": 55000, "default_ops_succeeded": 100000,
                     "refined_history_ops": 288000, "refined_grid_cases": 4000, "refined_list_ops": 180000,
                     "refined_dict_ops": 66000, "refined_set_ops": 48000, "refined_nested_ops": 16800,
                     "refined_assign_ops": 24000, "refined_construct_ops": 9600,
                     "refined_rejections_checked": 102000, "refined_ops_succeeded": 180000,
                     "refined_direction_checked": 96000, "refined_convertible_items_stored": 19200,
                     "refined_elements_walked": 900000, "refined_exact_type_trap_ops": 36000,
                     "refined_exact_type_trap_rejections": 33600, "refined_exact_type_trap_list_ops": 18000,
                     "refined_exact_type_trap_dict_ops": 10800, "refined_exact_type_trap_set_ops": 3600,
                     "refined_exact_type_trap_nested_ops": 2160, "refined_exact_type_trap_assign": 1560,
                     "refined_exact_type_trap_construct": 720,
                     # stratum: inner traits whose class is given by name (forward references)
                     "lazy_cases": 18000, "lazy_cases_resolved": 17760, "lazy_history_ops": 264000,
                     "lazy_ops_pre": 13440, "lazy_first_resolving_ops": 17760,
                     "lazy_first_with_invalid_item": 7200, "lazy_first_all_valid": 6960,
                     "lazy_first_by_item-op": 9600, "lazy_first_by_assign": 2640,
                     "lazy_first_by_construct": 1776, "lazy_first_by_default": 3360,
                     "lazy_ops_post": 240000, "lazy_ops_post_late_owner": 79200,
                     "lazy_ops_post_other_early_owner": 93600, "lazy_ops_post_resolving_owner": 74400,
                     "lazy_ops_post_with_named_class_item": 129600, "lazy_direction_pre": 2400,
                     "lazy_direction_first": 6480, "lazy_direction_post": 84000,
                     "lazy_direction_checked": 93600, "lazy_rejections_checked": 96000,
                     "lazy_ops_succeeded": 146400, "lazy_elements_walked": 696000,
                     "lazy_owners_adopted_before_first_resolution": 24000,
                     "lazy_owners_adopted_after_first_resolution": 28800, "lazy_final_walks": 52800,
                     "lazy_dict_ops": 146400, "lazy_list_ops": 64800, "lazy_set_ops": 26400,
                     "lazy_nested_ops": 11520, "lazy_assign_ops": 26400, "lazy_construct_ops": 12720,
                     "lazy_notifications_seen": 408000, "lazy_name_bare": 6000, "lazy_name_dotted": 6000,
                     "lazy_name_module": 6000, "lazy_default_given": 4560, "lazy_pos_dict-key": 8640,
                     "lazy_pos_dict-key-with-container-value": 2400, "lazy_pos_dict-value": 3840,
                     "lazy_pos_either-member": 2160, "lazy_pos_list-item": 5040,
                     "lazy_pos_nested-dict-key": 720, "lazy_pos_nested-dict-value": 720,
                     "lazy_pos_nested-list-item": 1800, "lazy_pos_nested-set-item": 720,
                     "lazy_pos_set-item": 2400, "lazy_pos_tuple-member": 1800},
    },
    "exhaustive_parts": ("list grid: every list mutator x every length in minlen..min(maxlen,4) x "
                         "argument lists of 0..3 items with an invalid item at each position, for every "
                         "List configuration (values are drawn, shapes are enumerated)"),
    "assumptions": [
        "the property does not depend on the owner: a container validates for its owner whatever the "
        "owner's truth value, equality or hash (the statement quantifies over all List/Dict/Set traits)",
        "reference predicates follow the documentation: Int/Range(int) accept exact ints and objects "
        "with __index__ (bool included) and store an exact int; Float accepts floats, ints and objects "
        "with __float__ and stores an exact float; Str accepts str only; CInt casts with int(); "
        "Instance(X) accepts None only with allow_none; List accepts only list instances, Set only "
        "set instances, Dict only dict instances",
        "built-in list/dict/set receiving the same operation decide whether an operation 'would' "
        "store its arguments and what the resulting length would be",
        "an invalid argument item 'would be stored' exactly when the built-in container given the same "
        "operation ends up holding that very object",
    ],
}

INF = sys.maxsize
NAME = "xs"

# --------------------------------------------------------------------------
# harness classes used as values
# --------------------------------------------------------------------------

_SERIAL = [0]


class X:
    """Target class of Instance(X); totally ordered by serial so sort() works."""

    def __init__(self):
        _SERIAL[0] += 1
        self.n = _SERIAL[0]

    def __lt__(self, other):
        return self.n < other.n

    def __repr__(self):
        return "X#%d" % self.n


class XS(X):
    def __repr__(self):
        return "XS#%d" % self.n


class Y:
    def __repr__(self):
        return "Y()"


class Z:
    """Second target class (unrelated to X), referred to by NAME only."""

    def __init__(self):
        _SERIAL[0] += 1
        self.n = _SERIAL[0]

    def __lt__(self, other):
        return self.n < other.n

    def __repr__(self):
        return "Z#%d" % self.n


TARGETS = {"X": X, "Z": Z}


class Idx:
    """Supports the index protocol only (Int: 'will be converted to the corresponding int')."""

    def __init__(self, n):
        self.n = n

    def __index__(self):
        return self.n

    def __repr__(self):
        return "Idx(%d)" % self.n


class Flt:
    """Supports __float__ only."""

    def __init__(self, x):
        self.x = x

    def __float__(self):
        return self.x

    def __repr__(self):
        return "Flt(%r)" % self.x


NAN = float("nan")

# --------------------------------------------------------------------------
# specs
# --------------------------------------------------------------------------

INT = ("Int",)
FLOAT = ("Float",)
STR = ("Str",)
RNG = ("Range", 0, 10)
ENUM = ("Enum", "red", "green", "blue")
INST = ("Instance", False)
INSTN = ("Instance", True)
NONE = ("None",)
EITH = ("Either", INT, NONE)
TUP = ("Tuple", INT, STR)
CINT = ("CInt",)




def FWD(target="X", allow_none=False, how="bare"):
    """Instance trait whose class is given by NAME (a forward reference the
    library resolves lazily, on first validation).  how: 'bare' (name looked up
    in the declaring module), 'dotted' (full dotted path), 'module' (bare name
    plus the `module=` keyword), 'class' (the class object: the resolved
    equivalent, used by the reference side only)."""
    return ("Fwd", allow_none, how, target)


# refinements of the Base scalar traits whose validate depends on the VALUE
ODD = ("Odd",)
NEST = ("NonEmpty",)
UNIT = ("Unit",)
LOWER = ("Lower",)
EVENC = ("EvenC",)
AGREED = ("Agreed",)
SBYTES = ("SBytes",)
FILE = ("File",)
DIR = ("Dir",)
STRING = ("String", 1, 3)
# the Python type a value must have exactly for the Base trait to take it as is
BASE_TYPE = {"Odd": int, "NonEmpty": str, "Unit": float, "Lower": str, "EvenC": int, "Agreed": bool,
             "SBytes": bytes, "File": str, "Dir": str, "String": str}


class OddInt(BaseInt):
    """The user manual's example of a trait type subclass."""
    default_value = 1
    info_text = "an odd integer"

    def validate(self, object, name, value):
        value = super().validate(object, name, value)
        if (value % 2) == 1:
            return value
        self.error(object, name, value)


class NonEmptyStr(BaseStr):
    default_value = "a"
    info_text = "a non-empty string"

    def validate(self, object, name, value):
        value = super().validate(object, name, value)
        if len(value) > 0:
            return value
        self.error(object, name, value)


class UnitFloat(BaseFloat):
    default_value = 0.5
    info_text = "a float in [0, 1]"

    def validate(self, object, name, value):
        value = super().validate(object, name, value)
        if 0.0 <= value <= 1.0:
            return value
        self.error(object, name, value)


class LowerStr(BaseStr):
    """Value-dependent CONVERSION: the stored string is lower case."""
    info_text = "a string (stored in lower case)"

    def validate(self, object, name, value):
        return super().validate(object, name, value).lower()


class EvenCInt(BaseCInt):
    info_text = "something int() turns into an even integer"

    def validate(self, object, name, value):
        value = super().validate(object, name, value)
        if (value % 2) == 0:
            return value
        self.error(object, name, value)


class Agreed(BaseBool):
    default_value = True
    info_text = "True"

    def validate(self, object, name, value):
        value = super().validate(object, name, value)
        if value is True:
            return value
        self.error(object, name, value)


class ShortBytes(BaseBytes):
    info_text = "a bytes string of at most 3 bytes"

    def validate(self, object, name, value):
        value = super().validate(object, name, value)
        if len(value) <= 3:
            return value
        self.error(object, name, value)


def L(inner, lo=0, hi=INF):
    return ("List", inner, lo, hi)


def D(k, v):
    return ("Dict", k, v)


def S(inner):
    return ("Set", inner)


CONTAINER = ("List", "Dict", "Set")


def spec_name(spec):
    t = spec[0]
    if t == "List":
        b = "" if (spec[2], spec[3]) == (0, INF) else "[%s,%s]" % (spec[2], "inf" if spec[3] == INF else spec[3])
        return "List(%s)%s" % (spec_name(spec[1]), b)
    if t == "Dict":
        return "Dict(%s,%s)" % (spec_name(spec[1]), spec_name(spec[2]))
    if t == "Set":
        return "Set(%s)" % spec_name(spec[1])
    if t == "Either":
        return "Either(%s)" % ",".join(spec_name(s) for s in spec[1:])
    if t == "Tuple":
        return "Tuple(%s)" % ",".join(spec_name(s) for s in spec[1:])
    if t == "Range":
        return "Range(%d,%d)" % spec[1:]
    if t == "Instance":
        return "Instance(X%s)" % (",none" if spec[1] else "")
    if t == "Fwd":
        return "Instance('%s'%s)" % (spec[3], ",none" if spec[1] else "")
    if t == "String":
        return "String(%d,%d)" % spec[1:]
    if t in ("File", "Dir"):
        return t + "(exists)"
    return t


def build(spec, default=None):
    """The traits declaration for a spec."""
    t = spec[0]
    if t == "Int":
        return Int()
    if t == "Float":
        return Float()
    if t == "Str":
        return Str()
    if t == "Range":
        return Range(spec[1], spec[2])
    if t == "Enum":
        return Enum(*spec[1:])
    if t == "Instance":
        return Instance(X, allow_none=spec[1])
    if t == "Fwd":
        if spec[2] == "class":
            return Instance(TARGETS[spec[3]], allow_none=spec[1])
        if spec[2] == "dotted":
            return Instance(__name__ + "." + spec[3], allow_none=spec[1])
        if spec[2] == "module":
            return Instance(spec[3], module=__name__, allow_none=spec[1])
        return Instance(spec[3], allow_none=spec[1])
    if t == "Either":
        return Either(*[None if s == NONE else build(s) for s in spec[1:]])
    if t == "Tuple":
        return Tuple(*[build(s) for s in spec[1:]])
    if t == "CInt":
        return CInt()
    if t == "Odd":
        return OddInt()
    if t == "NonEmpty":
        return NonEmptyStr()
    if t == "Unit":
        return UnitFloat()
    if t == "Lower":
        return LowerStr()
    if t == "EvenC":
        return EvenCInt()
    if t == "Agreed":
        return Agreed()
    if t == "SBytes":
        return ShortBytes()
    if t == "File":
        return File(exists=True)
    if t == "Dir":
        return Directory(exists=True)
    if t == "String":
        return String(minlen=spec[1], maxlen=spec[2])
    if t == "List":
        kw = {}
        if spec[2] != 0:
            kw["minlen"] = spec[2]
        if spec[3] != INF:
            kw["maxlen"] = spec[3]
        if default is not None:
            kw["value"] = default
        return List(build(spec[1]), **kw)
    if t == "Dict":
        if default is not None:
            return Dict(build(spec[1]), build(spec[2]), value=default)
        return Dict(build(spec[1]), build(spec[2]))
    if t == "Set":
        if default is not None:
            return Set(build(spec[1]), value=default)
        return Set(build(spec[1]))
    raise AssertionError(spec)


# --------------------------------------------------------------------------
# reference, written from the documentation (never calls traits)
# --------------------------------------------------------------------------

class Reject(Exception):
    pass


def convert(spec, v):
    """Documented conversion of an ARGUMENT: the value that must be stored,
    or Reject.  Containers are returned as plain list/dict/set."""
    t = spec[0]
    if t == "Int":
        if type(v) is int:
            return v
        try:
            return int(operator.index(v))
        except TypeError:
            raise Reject()
    if t == "Float":
        if type(v) is float:
            return v
        if isinstance(v, (float, int)) or hasattr(type(v), "__float__"):
            try:
                return float(v)
            except TypeError:
                raise Reject()
        raise Reject()
    if t == "Str":
        if isinstance(v, str):
            return v
        raise Reject()
    if t == "Range":
        c = convert(INT, v)
        if spec[1] <= c <= spec[2]:
            return c
        raise Reject()
    if t == "Enum":
        if isinstance(v, str) and v in spec[1:]:
            return v
        raise Reject()
    if t == "Instance":
        if isinstance(v, X) or (v is None and spec[1]):
            return v
        raise Reject()
    if t == "Fwd":
        if isinstance(v, TARGETS[spec[3]]) or (v is None and spec[1]):
            return v
        raise Reject()
    if t == "None":
        if v is None:
            return v
        raise Reject()
    if t == "Either":
        for s in spec[1:]:
            try:
                return convert(s, v)
            except Reject:
                pass
        raise Reject()
    if t == "Tuple":
        if isinstance(v, tuple) and len(v) == len(spec) - 1:
            return tuple(convert(s, x) for s, x in zip(spec[1:], v))
        raise Reject()
    if t == "CInt":
        try:
            return int(v)
        except (TypeError, ValueError, OverflowError):
            raise Reject()
    if t == "Odd":
        c = convert(INT, v)
        if c % 2 == 1:
            return c
        raise Reject()
    if t == "NonEmpty":
        if isinstance(v, str) and len(v) > 0:
            return v
        raise Reject()
    if t == "Unit":
        c = convert(FLOAT, v)
        if 0.0 <= c <= 1.0:
            return c
        raise Reject()
    if t == "Lower":
        if isinstance(v, str):
            return v.lower()
        raise Reject()
    if t == "EvenC":
        c = convert(CINT, v)
        if c % 2 == 0:
            return c
        raise Reject()
    if t == "Agreed":
        if v is True:
            return v
        raise Reject()
    if t == "SBytes":
        if isinstance(v, bytes) and len(v) <= 3:
            return v
        raise Reject()
    if t == "File" or t == "Dir":
        # "accepts strings and os.PathLike objects, converting the latter to
        # the corresponding string"; exists=True: must name an existing file/dir
        if isinstance(v, os.PathLike):
            v = os.fspath(v)
        if isinstance(v, str) and (os.path.isfile(v) if t == "File" else os.path.isdir(v)):
            return v
        raise Reject()
    if t == "String":
        if isinstance(v, str) and spec[1] <= len(v) <= spec[2]:
            return v
        raise Reject()
    if t == "List":
        if isinstance(v, list) and spec[2] <= len(v) <= spec[3]:
            return [convert(spec[1], x) for x in v]
        raise Reject()
    if t == "Dict":
        if isinstance(v, dict):
            return {convert(spec[1], k): convert(spec[2], x) for k, x in v.items()}
        raise Reject()
    if t == "Set":
        if isinstance(v, set):
            return {convert(spec[1], x) for x in v}
        raise Reject()
    raise AssertionError(spec)


def accepts(spec, v):
    try:
        convert(spec, v)
        return True
    except Reject:
        return False


class Walk(Exception):
    """A stored item outside the domain (complaint, path, item)."""

    def __init__(self, complaint, where, item):
        Exception.__init__(self, complaint)
        self.complaint = complaint
        self.where = where
        self.item = item


def in_domain(spec, e, owner=None):
    """Is `e` a legal STORED element of a container whose inner trait is spec?
    Small, independent of `convert` and of traits (only the three container
    class objects are used, for `isinstance`)."""
    t = spec[0]
    if t == "Int" or t == "CInt":
        return type(e) is int
    if t == "Float":
        return type(e) is float
    if t == "Str":
        return type(e) is str
    if t == "Range":
        return type(e) is int and spec[1] <= e <= spec[2]
    if t == "Enum":
        return type(e) is str and e in spec[1:]
    if t == "Instance":
        return isinstance(e, X) or (spec[1] and e is None)
    if t == "Fwd":
        return isinstance(e, TARGETS[spec[3]]) or (spec[1] and e is None)
    if t == "None":
        return e is None
    if t == "Either":
        return any(in_domain(s, e) for s in spec[1:])
    if t == "Tuple":
        return (type(e) is tuple and len(e) == len(spec) - 1
                and all(in_domain(s, x) for s, x in zip(spec[1:], e)))
    if t == "Odd":
        return type(e) is int and e % 2 == 1
    if t == "NonEmpty":
        return type(e) is str and e != ""
    if t == "Unit":
        return type(e) is float and 0.0 <= e <= 1.0
    if t == "Lower":
        return type(e) is str and not any(c.isupper() for c in e)
    if t == "EvenC":
        return type(e) is int and e % 2 == 0
    if t == "Agreed":
        return e is True
    if t == "SBytes":
        return type(e) is bytes and len(e) <= 3
    if t == "File":
        return type(e) is str and os.path.isfile(e)
    if t == "Dir":
        return type(e) is str and os.path.isdir(e)
    if t == "String":
        return type(e) is str and spec[1] <= len(e) <= spec[2]
    try:
        walk_container(spec, e, owner, "")
        return True
    except Walk:
        return False


TRAIT_CONTAINERS = (TraitListObject, TraitDictObject, TraitSetObject)
CLASS_OF = {"List": TraitListObject, "Dict": TraitDictObject, "Set": TraitSetObject}
KIND_OF = {"List": "list", "Dict": "dict", "Set": "set"}
_CT = {}


def resolved(spec):
    """The spec with every by-name class reference replaced by the class."""
    if spec[0] == "Fwd":
        return ("Fwd", spec[1], "class", spec[3])
    return tuple(resolved(x) if isinstance(x, tuple) else x for x in spec)


def ctrait(spec):
    """The inner trait used for the fixed-point check of a stored item (built
    independently of the class under test; class references are given as
    classes, so it has no lazy state of its own)."""
    ct = _CT.get(spec)
    if ct is None:
        ct = _CT[spec] = build(resolved(spec)).as_ctrait()
    return ct


class Counter:
    n = 0


def check_item(spec, e, owner, where):
    """One stored item: independent predicate + fixed point of the inner
    trait's own validate."""
    Counter.n += 1
    if spec[0] in CONTAINER:
        walk_container(spec, e, owner, where)
        try:
            r = ctrait(spec).validate(owner, NAME, e)
        except TraitError:
            raise Walk("stored-item-fails-own-validator", where, e)
        if type(r) is not type(e) or r != e:
            raise Walk("stored-item-not-fixed-point", where, e)
        return
    if not in_domain(spec, e):
        raise Walk("unconverted-item-stored" if accepts(spec, e) else "invalid-item-stored", where, e)
    try:
        r = ctrait(spec).validate(owner, NAME, e)
    except TraitError:
        raise Walk("stored-item-fails-own-validator", where, e)
    if not same(r, e):
        raise Walk("stored-item-not-fixed-point", where, e)


def walk_container(spec, c, owner, where):
    t = spec[0]
    if not isinstance(c, CLASS_OF[t]):
        raise Walk("not-a-trait-container" if isinstance(c, (list, dict, set)) else "invalid-item-stored",
                   where, c)
    if owner is not None and c.object() is not owner:
        raise Walk("container-not-bound-to-owner", where, c)
    if t == "List":
        if not spec[2] <= len(c) <= spec[3]:
            raise Walk("length-bound-not-enforced", where, c)
        for i, e in enumerate(list.__iter__(c)):
            check_item(spec[1], e, owner, where + "[%d]" % i)
    elif t == "Dict":
        for k, v in list(dict.items(c)):
            check_item(spec[1], k, owner, where + ".key")
            check_item(spec[2], v, owner, where + ".value")
    else:
        for e in list(set.__iter__(c)):
            check_item(spec[1], e, owner, where + ".member")


# --------------------------------------------------------------------------
# snapshots (identity, element by element, recursively)
# --------------------------------------------------------------------------

def snap(v):
    if isinstance(v, list):
        return (v, "L", [snap(x) for x in list.__iter__(v)])
    if isinstance(v, dict):
        return (v, "D", [(k, snap(x)) for k, x in dict.items(v)])
    if isinstance(v, set):
        return (v, "S", sorted(((id(x), x) for x in set.__iter__(v)), key=lambda p: p[0]))
    return (v, None, None)


def snap_same(a, b):
    """Same objects, element by element, recursively (sets: same members)."""
    if a[0] is not b[0] or a[1] != b[1]:
        return False
    if a[1] is None:
        return True
    if len(a[2]) != len(b[2]):
        return False
    if a[1] == "L":
        return all(snap_same(x, y) for x, y in zip(a[2], b[2]))
    if a[1] == "D":
        return all(x[0] is y[0] and snap_same(x[1], y[1]) for x, y in zip(a[2], b[2]))
    return all(x[1] is y[1] for x, y in zip(a[2], b[2]))


def plain(v):
    """Deep plain copy for witnesses / models."""
    if isinstance(v, list):
        return [plain(x) for x in list.__iter__(v)]
    if isinstance(v, dict):
        return {k: plain(x) for k, x in dict.items(v)}
    if isinstance(v, set):
        return set(set.__iter__(v))
    return v


class Tagged:
    def __init__(self, text):
        self.text = text

    def __repr__(self):
        return self.text


def show(x):
    """Operation literal for witnesses: trait containers passed as arguments
    (borrowed from this or another object) are tagged as such."""
    if isinstance(x, (TraitListObject, TraitDictObject, TraitSetObject)):
        return Tagged("<%s %r>" % (type(x).__name__, plain(x)))
    if isinstance(x, tuple):
        return tuple(show(i) for i in x)
    if isinstance(x, list):
        return [show(i) for i in x]
    return x


# --------------------------------------------------------------------------
# value pools: (valid, convertible, invalid) per atomic spec
# --------------------------------------------------------------------------

def _pools():
    np_int = [np.int64(4), np.uint8(6)] if np is not None else []
    np_flt = [np.float32(1.5)] if np is not None else []
    return {
        "Int": ([0, 1, 2, 3, 4, 5, 6, 7, -3, 2 ** 40], [True, False, Idx(5), Idx(-2)] + np_int,
                ["x", "3", 2.5, None, [1], (1,), Y(), 1j, b"1", 1.0, 3.0]),
        "Float": ([0.5, 1.0, -2.25, 3.0, float("inf"), NAN, 1e-300], [3, True, Flt(2.5), 10 ** 6] + np_flt,
                  ["x", "1.0", None, [1.0], (1.0,), Y(), 1j, 3 + 0j, 1 + 0j]),
        "Str": (["a", "b", "ab", "", "c", "xyz"], [], [1, None, b"a", ["a"], 2.5, ("a",), Y()]),
        "Range": ([0, 1, 2, 4, 5, 6, 9, 10], [True, False, Idx(5), Idx(10)] + np_int,
                  [-1, 11, 2.5, "x", "5", None, Idx(11), [5], 10 ** 20, 5.0, 1.0]),
        "Enum": (["red", "green", "blue", "".join(["r", "ed"])], [],
                 ["purple", "", "RED", 1, None, ["red"], ("red",), b"red"]),
        "None": ([None], [], [0, "", "x", [], 2.5]),
        "CInt": ([0, 1, 2, 3, 5, -4], ["4", 2.5, True, " 7 ", 9.99, "-1"], ["x", None, [1], (1,), Y(), "2.5", ""]),
    }


POOLS = _pools()
VALID, CONV, INVALID = "valid", "conv", "invalid"
FS = {}


def setup_refined_pools():
    """Pools of the value-dependent refinements.  The invalid pools are rich in
    values of EXACTLY the base Python type (an even int for OddInt, '' for
    NonEmptyStr, the name of a missing file for File(exists=True))."""
    if "Odd" in POOLS:
        return
    root = tempfile.mkdtemp(prefix="c04-fs-")
    atexit.register(shutil.rmtree, root, True)
    f1, f2 = os.path.join(root, "f1.txt"), os.path.join(root, "f2.dat")
    d1, d2 = os.path.join(root, "d1"), os.path.join(root, "d2")
    for f in (f1, f2):
        with open(f, "w") as fh:
            fh.write("x")
    for d in (d1, d2):
        os.mkdir(d)
    missing, missing2 = os.path.join(root, "missing.txt"), os.path.join(root, "nodir")
    FS.update(root=root, f1=f1, d1=d1)
    np_odd = [np.int64(3), np.uint8(7)] if np is not None else []
    POOLS.update({
        "Odd": ([1, 3, 5, 7, -3, 2 ** 40 + 1], [True, Idx(5), Idx(-1)] + np_odd,
                [0, 2, 4, 6, -2, 2 ** 40, 4, 2, False, Idx(4), "x", "3", 2.5, None, [1], 1.0]),
        "NonEmpty": (["a", "b", "ab", "xyz"], [], ["", "", "", "".join([]), 1, None, b"a", ["a"]]),
        "Unit": ([0.0, 0.5, 1.0, 0.25, 1e-300], [0, 1, True, Flt(0.5)],
                 [1.5, -0.5, 2.0, float("inf"), NAN, -1e-300, 3, Flt(2.5), "x", None, [0.5]]),
        "Lower": (["a", "ab", "", "xyz", "a1"], ["AB", "Ab", "C", "xyZ"], [1, None, b"a", ["a"], 2.5]),
        "EvenC": ([0, 2, 4, -4, 6], ["4", 2.5, " 8 ", False, "-2"],
                  [1, 3, 5, -3, 7, "3", 3.7, True, "x", None, [2]]),
        "Agreed": ([True], [], [False, False, False, 1, 0, "True", None, [True]]),
        "SBytes": ([b"", b"a", b"ab", b"abc"], [], [b"abcd", b"toolong", b"abcde", "a", None, [b"a"], 5]),
        "File": ([f1, f2], [pathlib.Path(f1), pathlib.Path(f2)],
                 [missing, missing2, d1, "", missing + "x", 5, None, [f1], pathlib.Path(missing), b"x"]),
        "Dir": ([d1, d2], [pathlib.Path(d1), pathlib.Path(d2)],
                [missing2, missing, f1, "", missing2 + "x", 5, None, [d1], pathlib.Path(missing2)]),
        "String": (["a", "ab", "abc", "xyz"], [], ["", "abcd", "toolong", "", None, ["a"], b"a"]),
    })


def exact_type_trap(spec, v):
    """Does the argument contain a NON-valid item (rejected, or needing a
    value-dependent conversion) of exactly the base Python type of a refined
    scalar trait?  (the ingredient a type-only shortcut gets wrong)"""
    t = spec[0]
    if t in BASE_TYPE:
        return type(v) is BASE_TYPE[t] and classify(spec, v) != VALID
    if t in ("Either", "Tuple"):
        if t == "Tuple":
            return (isinstance(v, tuple) and len(v) == len(spec) - 1
                    and any(exact_type_trap(s, x) for s, x in zip(spec[1:], v)))
        return not accepts(spec, v) and any(exact_type_trap(s, v) for s in spec[1:])
    if t == "List":
        return isinstance(v, list) and any(exact_type_trap(spec[1], x) for x in list.__iter__(v))
    if t == "Set":
        return isinstance(v, set) and any(exact_type_trap(spec[1], x) for x in set.__iter__(v))
    if t == "Dict":
        return isinstance(v, dict) and any(exact_type_trap(spec[1], k) or exact_type_trap(spec[2], x)
                                           for k, x in dict.items(v))
    return False


def has_conv(spec):
    t = spec[0]
    if t in POOLS:
        return bool(POOLS[t][1])
    if t == "Instance" or t == "Fwd":
        return False
    if t in ("Either", "Tuple"):
        return any(has_conv(s) for s in spec[1:])
    if t == "List" or t == "Set":
        return has_conv(spec[1])
    return has_conv(spec[1]) or has_conv(spec[2])


def hashable(v):
    try:
        hash(v)
        return True
    except TypeError:
        return False


def gen(spec, rng, want, need_hash=False, borrow=None):
    """A raw argument for `spec` intended to be valid / convertible / invalid
    (the authoritative class is recomputed with `classify`)."""
    if want == CONV and not has_conv(spec):
        want = VALID
    for _ in range(20):
        v = _gen(spec, rng, want, borrow)
        if not need_hash or hashable(v):
            return v
    return _gen(spec, rng, VALID, borrow)


def _gen(spec, rng, want, borrow):
    t = spec[0]
    if t in POOLS:
        pool = POOLS[t][{VALID: 0, CONV: 1, INVALID: 2}[want]]
        return rng.choice(pool)
    if t == "Instance":
        if want == INVALID:
            return rng.choice([Y(), 5, "x", X, [X()]] + ([] if spec[1] else [None]))
        if spec[1] and rng.random() < 0.25:
            return None
        return XS() if rng.random() < 0.3 else X()
    if t == "Fwd":
        mine, foreign = (X, Z) if spec[3] == "X" else (Z, X)
        if want == INVALID:
            # rich in instances of the OTHER class referred to by name, and in None
            return rng.choice([foreign(), foreign(), Y(), 5, "x", 2.5, mine, [mine()]]
                              + ([] if spec[1] else [None, None, None]))
        if spec[1] and rng.random() < 0.25:
            return None
        return XS() if mine is X and rng.random() < 0.3 else mine()
    if t == "Either":
        if want == INVALID:
            for _ in range(10):
                m = rng.choice(spec[1:])
                c = (_gen(m, rng, INVALID, borrow) if rng.random() < 0.6 else
                     rng.choice(["x", 2.5, [1], (1,), Y(), 1.0, 2.0]))
                if not accepts(spec, c):
                    return c
            return "x"
        s = rng.choice(spec[1:])
        if want == CONV:
            s = [x for x in spec[1:] if has_conv(x)][0]
        return _gen(s, rng, want, borrow)
    if t == "Tuple":
        n = len(spec) - 1
        if want == INVALID:
            c = rng.randrange(5)
            if c == 0:
                return rng.choice([None, 5, "ab", Y()])
            good = [_gen(s, rng, VALID, borrow) for s in spec[1:]]
            if c == 1:
                return tuple(good[:-1])
            if c == 2:
                return tuple(good) + (good[0],)
            if c == 3:
                return good                      # a list is not a tuple
            p = rng.randrange(n)
            good[p] = _gen(spec[1 + p], rng, INVALID, borrow)
            return tuple(good)
        vals = [_gen(s, rng, VALID, borrow) for s in spec[1:]]
        if want == CONV:
            ps = [i for i in range(n) if has_conv(spec[1 + i])]
            p = rng.choice(ps)
            vals[p] = _gen(spec[1 + p], rng, CONV, borrow)
        return tuple(vals)
    # containers --------------------------------------------------------
    if want == VALID and borrow is not None and rng.random() < 0.2:
        b = borrow(spec)
        if b is not None:
            return b
    if t == "List":
        inner, lo, hi = spec[1], spec[2], spec[3]
        if want == INVALID:
            c = rng.randrange(6)
            if c == 0:
                return rng.choice([None, 5, "ab", Y()])
            if c == 1:
                return tuple(_gen(inner, rng, VALID, borrow) for _ in range(max(lo, 1)))
            if c == 2 and hi != INF:
                return [_gen(inner, rng, VALID, borrow) for _ in range(hi + rng.randint(1, 2))]
            if c == 3 and lo > 0:
                return [_gen(inner, rng, VALID, borrow) for _ in range(rng.randrange(lo))]
            n = rng.randint(max(lo, 1), max(lo, 1, min(hi, lo + 3)))
            vals = [_gen(inner, rng, VALID, borrow) for _ in range(n)]
            vals[rng.randrange(n)] = _gen(inner, rng, INVALID, borrow)
            return vals
        n = rng.randint(lo, min(hi, lo + 3))
        vals = [_gen(inner, rng, VALID, borrow) for _ in range(n)]
        if want == CONV:
            if not n:
                if hi < 1:
                    return vals
                vals.append(None)
                n = 1
            vals[rng.randrange(n)] = _gen(inner, rng, CONV, borrow)
        return vals
    if t == "Set":
        inner = spec[1]
        if want == INVALID:
            c = rng.randrange(4)
            if c == 0:
                return rng.choice([None, 5, "ab", Y()])
            if c == 1:
                return [gen(inner, rng, VALID, True) for _ in range(2)]
            vals = {gen(inner, rng, VALID, True) for _ in range(rng.randint(0, 2))}
            vals.add(gen(inner, rng, INVALID, True))
            return vals
        vals = {gen(inner, rng, VALID, True) for _ in range(rng.randint(0, 3))}
        if want == CONV:
            vals.add(gen(inner, rng, CONV, True))
        return vals
    if t == "Dict":
        ks, vs = spec[1], spec[2]
        if want == INVALID:
            c = rng.randrange(4)
            if c == 0:
                return rng.choice([None, 5, "ab", Y()])
            if c == 1:
                return [(gen(ks, rng, VALID, True), _gen(vs, rng, VALID, borrow))]
            d = {gen(ks, rng, VALID, True): _gen(vs, rng, VALID, borrow) for _ in range(rng.randint(0, 2))}
            if c == 2:
                d[gen(ks, rng, INVALID, True)] = _gen(vs, rng, VALID, borrow)
            else:
                d[gen(ks, rng, VALID, True)] = _gen(vs, rng, INVALID, borrow)
            return d
        d = {gen(ks, rng, VALID, True): _gen(vs, rng, VALID, borrow) for _ in range(rng.randint(0, 3))}
        if want == CONV:
            if has_conv(ks) and rng.random() < 0.5:
                d[gen(ks, rng, CONV, True)] = _gen(vs, rng, VALID, borrow)
            elif has_conv(vs):
                d[gen(ks, rng, VALID, True)] = _gen(vs, rng, CONV, borrow)
            else:
                d[gen(ks, rng, CONV, True)] = _gen(vs, rng, VALID, borrow)
        return d
    raise AssertionError(spec)


def classify(spec, v):
    """valid (stored as is) / conv (accepted, stored converted) / invalid."""
    try:
        c = convert(spec, v)
    except Reject:
        return INVALID
    if spec[0] in CONTAINER:
        return VALID if _deep_same(c, v) else CONV
    return VALID if same(c, v) else CONV


def _deep_same(c, v):
    if isinstance(c, list):
        return len(c) == len(v) and all(_deep_same(a, b) for a, b in zip(c, list.__iter__(v)))
    if isinstance(c, dict):
        if len(c) != len(v):
            return False
        for (k1, a), (k2, b) in zip(c.items(), dict.items(v)):
            if not same(k1, k2) or not _deep_same(a, b):
                return False
        return True
    if isinstance(c, set):
        if len(c) != len(v):
            return False
        return all(any(same(a, b) for b in set.__iter__(v)) for a in c)
    return same(c, v)


def plan(rng, k):
    """Intended class of each of k argument items."""
    wants = [CONV if rng.random() < 0.25 else VALID for _ in range(k)]
    if k and rng.random() < 0.4:
        wants[rng.randrange(k)] = INVALID
        if k > 1 and rng.random() < 0.25:
            wants[rng.randrange(k)] = INVALID
    return wants


# --------------------------------------------------------------------------
# operations
# --------------------------------------------------------------------------

def mk_slice(s):
    return slice(s[0], s[1], s[2])


def mk_iter(items, how):
    if how == "tuple":
        return tuple(items)
    if how == "gen":
        return (x for x in items)
    return list(items)


def sort_key(x):
    return (type(x).__name__, repr(x))


def apply_list(t, op):
    n = op[0]
    if n == "setitem":
        t[op[1]] = op[2]
    elif n == "setslice":
        t[mk_slice(op[1])] = mk_iter(op[2], op[3])
    elif n == "setslice_scalar":
        t[mk_slice(op[1])] = op[2]
    elif n == "delitem":
        del t[op[1]]
    elif n == "delslice":
        del t[mk_slice(op[1])]
    elif n == "append":
        t.append(op[1])
    elif n == "extend":
        t.extend(mk_iter(op[1], op[2]))
    elif n == "insert":
        t.insert(op[1], op[2])
    elif n == "iadd":
        return operator.iadd(t, mk_iter(op[1], op[2]))
    elif n == "imul":
        return operator.imul(t, op[1])
    elif n == "pop":
        t.pop(*op[1:])
    elif n == "remove":
        t.remove(op[1])
    elif n == "clear":
        t.clear()
    elif n == "reverse":
        t.reverse()
    elif n == "sort":
        if op[1] == "plain":
            t.sort()
        elif op[1] == "rev":
            t.sort(reverse=True)
        else:
            t.sort(key=sort_key, reverse=op[1] == "keyrev")
    else:
        raise AssertionError(op)
    return t


def mk_mapping(pairs, how):
    if how == "dict":
        return dict(pairs)
    if how == "gen":
        return ((k, v) for k, v in pairs)
    return list(pairs)


def apply_dict(t, op):
    n = op[0]
    if n == "setitem":
        t[op[1]] = op[2]
    elif n == "delitem":
        del t[op[1]]
    elif n == "update":
        t.update(mk_mapping(op[1], op[2]))
    elif n == "update_raw":
        t.update(op[1])
    elif n == "ior":
        return operator.ior(t, mk_mapping(op[1], op[2]))
    elif n == "setdefault":
        t.setdefault(*op[1:])
    elif n == "pop":
        t.pop(*op[1:])
    elif n == "popitem":
        t.popitem()
    elif n == "clear":
        t.clear()
    else:
        raise AssertionError(op)
    return t


def mk_operand(items, how):
    if how == "set":
        return set(items)
    if how == "frozenset":
        return frozenset(items)
    if how == "gen":
        return (x for x in items)
    if how == "tuple":
        return tuple(items)
    return list(items)


def apply_set(t, op):
    n = op[0]
    if n in ("add", "discard", "remove"):
        getattr(t, n)(op[1])
    elif n == "pop":
        t.pop()
    elif n == "clear":
        t.clear()
    elif n in ("update", "difference_update", "intersection_update"):
        getattr(t, n)(*[mk_operand(items, how) for items, how in op[1]])
    elif n == "symmetric_difference_update":
        t.symmetric_difference_update(mk_operand(op[1], op[2]))
    elif n in ("ior", "iand", "isub", "ixor"):
        return getattr(operator, n)(t, mk_operand(op[1], op[2]))
    else:
        raise AssertionError(op)
    return t


APPLY = {"list": apply_list, "dict": apply_dict, "set": apply_set}


def apply_op(kind, target, op, owner=None):
    """Run op on `target`.  `attr_<op>` is the in-place operator spelled
    through the attribute (`obj.xs += v`): the result is assigned back."""
    if op[0].startswith("attr_"):
        base = (op[0][5:],) + tuple(op[1:])
        if owner is None:
            return APPLY[kind](target, base)
        r = APPLY[kind](getattr(owner, NAME), base)
        setattr(owner, NAME, r)
        return r
    return APPLY[kind](target, op)


def arg_items(kind, op, spec):
    """(inner spec, raw item) for every argument item of the operation that a
    built-in container could end up holding."""
    n = op[0]
    if n.startswith("attr_"):
        n = n[5:]
    out = []
    if kind == "list":
        inner = spec[1]
        if n in ("setitem", "insert"):
            out.append((inner, op[2]))
        elif n == "append":
            out.append((inner, op[1]))
        elif n == "setslice":
            out.extend((inner, x) for x in op[2])
        elif n in ("extend", "iadd"):
            out.extend((inner, x) for x in op[1])
    elif kind == "dict":
        ks, vs = spec[1], spec[2]
        if n == "setitem":
            out.append((ks, op[1]))
            out.append((vs, op[2]))
        elif n in ("update", "ior"):
            for k, v in op[1]:
                out.append((ks, k))
                out.append((vs, v))
        elif n == "setdefault":
            out.append((ks, op[1]))
            out.append((vs, op[2] if len(op) > 2 else None))
    else:
        inner = spec[1]
        if n == "add":
            out.append((inner, op[1]))
        elif n in ("update", "intersection_update"):
            for items, how in op[1]:
                out.extend((inner, x) for x in items)
        elif n in ("ior", "ixor", "iand", "symmetric_difference_update"):
            out.extend((inner, x) for x in op[1])
    return out


def held_ids(kind, model, spec):
    """{(inner spec, id)} of the objects a built-in container holds after the
    operation, per role (a dict key is not confused with an identical value)."""
    if kind == "dict":
        return {(spec[1], id(k)) for k in model} | {(spec[2], id(v)) for v in model.values()}
    return {(spec[1], id(x)) for x in model}


# ---- generators ---------------------------------------------------------------

LIST_OPS = ["setitem", "setitem", "setslice", "setslice", "setslice_ext", "delitem", "delslice", "append",
            "append", "extend", "extend", "insert", "insert", "iadd", "iadd", "imul", "pop", "remove",
            "clear", "sort", "reverse", "attr_iadd", "attr_imul"]


def rand_slice(rng, n):
    def e():
        return None if rng.random() < 0.3 else rng.randint(-n - 2, n + 2)
    st = rng.choice([None, None, None, 1, 1, -1, 2, 2, -2, 3, n + 1, 0])
    return (e(), e(), st)


def gen_items(rng, inner, k, borrow):
    return [gen(inner, rng, w, borrow=borrow) for w in plan(rng, k)]


def gen_list_op(rng, spec, cur, top, borrow=None, name=None):
    inner = spec[1]
    n = len(cur)
    name = name or rng.choice(LIST_OPS)
    if name.startswith("attr_") and not top:
        name = name[5:]

    def item():
        return gen(inner, rng, plan(rng, 1)[0], borrow=borrow)

    def how():
        return rng.choice(["list", "list", "tuple", "gen"])
    if name == "setitem":
        return ("setitem", rng.randint(-n - 1, n + 1) if rng.random() < 0.25 else
                (rng.randrange(n) if n else 0), item())
    if name == "setslice":
        s = rand_slice(rng, n)
        if rng.random() < 0.6:
            s = (s[0], s[1], rng.choice([None, 1]))
        if rng.random() < 0.04:
            return ("setslice_scalar", s, item())
        return ("setslice", s, gen_items(rng, inner, rng.randint(0, 3), borrow), how())
    if name == "setslice_ext":
        s = rand_slice(rng, n)
        try:
            k = len(range(n)[mk_slice(s)])
        except ValueError:
            k = 0
        if rng.random() < 0.15:
            k += rng.choice([-1, 1])
        return ("setslice", s, gen_items(rng, inner, max(k, 0), borrow), how())
    if name == "delitem":
        return ("delitem", rng.randint(-n - 1, n + 1))
    if name == "delslice":
        return ("delslice", rand_slice(rng, n))
    if name == "append":
        return ("append", item())
    if name in ("extend", "iadd", "attr_iadd"):
        return (name, gen_items(rng, inner, rng.randint(0, 3), borrow), how())
    if name == "insert":
        return ("insert", rng.randint(-n - 2, n + 2), item())
    if name in ("imul", "attr_imul"):
        return (name, rng.choice([-1, 0, 1, 1, 2, 2, 3]) if n < 30 else 1)
    if name == "pop":
        return ("pop",) if rng.random() < 0.4 else ("pop", rng.randint(-n - 1, n + 1))
    if name == "remove":
        if n and rng.random() < 0.75:
            return ("remove", list.__getitem__(cur, rng.randrange(n)))
        return ("remove", item())
    if name == "sort":
        return ("sort", rng.choice(["plain", "rev", "key", "keyrev"]))
    return (name,)


DICT_OPS = ["setitem", "setitem", "setitem", "delitem", "update", "update", "update", "ior", "ior",
            "setdefault", "setdefault", "pop", "popitem", "clear", "attr_ior"]


def gen_dict_op(rng, spec, cur, top, borrow=None):
    ks, vs = spec[1], spec[2]
    name = rng.choice(DICT_OPS)
    if name.startswith("attr_") and not top:
        name = name[5:]
    keys = list(dict.keys(cur))

    def key(p_existing=0.35):
        if keys and rng.random() < p_existing:
            return rng.choice(keys)
        w = plan(rng, 1)[0]
        return gen(ks, rng, w, need_hash=rng.random() < 0.9)

    def val():
        return gen(vs, rng, plan(rng, 1)[0], borrow=borrow)
    if name == "setitem":
        return ("setitem", key(), val())
    if name == "delitem":
        return ("delitem", key(0.7))
    if name in ("update", "ior", "attr_ior"):
        k = rng.randint(0, 3)
        pairs = [(key(0.25), val()) for _ in range(k)]
        if k and rng.random() < 0.15:
            pairs.append((pairs[0][0], val()))       # duplicate key
        hw = rng.choice(["dict", "dict", "pairs", "gen"] if name == "update" else ["dict", "dict", "pairs"])
        if hw == "dict" and not all(hashable(p[0]) for p in pairs):
            hw = "pairs"
        if name == "update" and rng.random() < 0.04:
            return ("update_raw", rng.choice([5, None, [(1,)], [1], "ab"]))
        return (name, pairs, hw)
    if name == "setdefault":
        return ("setdefault", key()) if rng.random() < 0.25 else ("setdefault", key(), val())
    if name == "pop":
        return ("pop", key(0.6)) if rng.random() < 0.6 else ("pop", key(0.5), val())
    return (name,)


SET_OPS = ["add", "add", "add", "discard", "remove", "pop", "clear", "update", "update", "ior", "ior", "iand",
           "isub", "ixor", "ixor", "difference_update", "intersection_update",
           "symmetric_difference_update", "symmetric_difference_update", "attr_ior", "attr_ixor",
           "attr_iand", "attr_isub"]


ISECT_OPS = ("iand", "attr_iand", "intersection_update")


def localize(items, members):
    """Replace every item that compares equal to a member by that member."""
    out = []
    for x in items:
        if hashable(x):
            for m in members:
                if m is x or (m == x and hash(m) == hash(x)):
                    x = m
                    break
        out.append(x)
    return out


def gen_set_op(rng, spec, cur, top, borrow=None, foreign_equal=True, name=None):
    """foreign_equal=False: the operands of the intersection operators overlap
    the set only through the members themselves (identical objects).  The
    equal-but-not-identical overlap is drawn in its own stratum (`isect`),
    because it hits an open finding and would truncate the main histories."""
    inner = spec[1]
    name = name or rng.choice(SET_OPS)
    if name.startswith("attr_") and not top:
        name = name[5:]
    members = list(set.__iter__(cur))
    if name == "attr_iand" and foreign_equal:
        name = "iand"            # same mechanism, one key
    if name in ISECT_OPS and not foreign_equal:
        op = gen_set_op(rng, spec, cur, top, borrow, True, name)
        if name == "intersection_update":
            return (name, [(localize(items, members), how) for items, how in op[1]])
        return (name, localize(op[1], members), op[2])

    def twin():
        """An argument equal to, but not identical with, a member."""
        for _ in range(25):
            x = gen(inner, rng, rng.choice([CONV, INVALID, VALID]), need_hash=True)
            for m in members:
                if m is not x and m == x and hash(m) == hash(x):
                    return x
        return rng.choice(members)

    def items(k, need_hash, p_existing=0.3):
        out = []
        for w in plan(rng, k):
            if members and name in ISECT_OPS and foreign_equal and rng.random() < 0.5:
                out.append(twin())
            elif members and rng.random() < p_existing:
                out.append(rng.choice(members))
            else:
                out.append(gen(inner, rng, w, need_hash=need_hash))
        return out
    if name == "add":
        return ("add", items(1, rng.random() < 0.85, 0.15)[0])
    if name in ("discard", "remove"):
        return (name, items(1, rng.random() < 0.9, 0.6)[0])
    if name in ("pop", "clear"):
        return (name,)
    if name in ("update", "difference_update", "intersection_update"):
        args = []
        for _ in range(rng.choice([0, 1, 1, 1, 2, 3])):
            hw = rng.choice(["set", "list", "tuple", "gen", "frozenset"])
            args.append((items(rng.randint(0, 3), hw in ("set", "frozenset") or rng.random() < 0.8,
                               0.5 if name != "update" else 0.25), hw))
        return (name, args)
    if name == "symmetric_difference_update":
        hw = rng.choice(["set", "list", "tuple", "gen", "frozenset"])
        return (name, items(rng.randint(0, 3), True, 0.4), hw)
    hw = rng.choice(["set", "set", "set", "frozenset", "list"])
    return (name, items(rng.randint(0, 3), True, 0.4), hw)


GEN_OP = {"list": gen_list_op, "dict": gen_dict_op, "set": gen_set_op}


# --------------------------------------------------------------------------
# configurations: one HasTraits class per container declaration
# --------------------------------------------------------------------------

LOG = []
HANDLER_EXC = []


FLAVOURS = ("plain", "len", "bool", "eq")
READY = "_c04_ready"


def make_class(trait, flavour="plain"):
    """The owner class.  Flavours (nothing in the property depends on them --
    a container validates for its owner whatever the owner's truth value,
    equality or hash):
    len  : collection-like model, `len(owner)` is the size of its container, so
           the owner is FALSY while the container is empty (incl. during
           `Cls(xs=...)`);
    bool : `bool(owner)` is False until a flag is set (never during construction);
    eq   : value-based `__eq__` / `__hash__`: two owners holding equal containers
           are equal (and always hash-equal) without being the same object."""
    class H(HasTraits):
        xs = trait

        def _xs_changed(self, old, new):
            LOG.append("static:xs")

        def _xs_items_changed(self, event):
            LOG.append("static:xs_items")

        def _anytrait_changed(self, name, old, new):
            LOG.append("anytrait:" + name)

        if flavour == "len":
            def __len__(self):
                return len(self.__dict__.get(NAME, ()))
        elif flavour == "bool":
            def __bool__(self):
                return self.__dict__.get(READY, False)
        elif flavour == "eq":
            def __eq__(self, other):
                return (type(other) is type(self)
                        and self.__dict__.get(NAME) == other.__dict__.get(NAME))

            def __ne__(self, other):
                return not self.__eq__(other)

            def __hash__(self):
                return hash(type(self).__name__)
    H.__name__ = H.__qualname__ = "H_" + flavour
    return H


def valid_default(spec):
    if spec[0] != "List" or spec[2] == 0:
        return None
    inner = spec[1]
    if inner[0] == "Instance":
        return [X() for _ in range(spec[2])]
    if inner[0] == "Fwd":
        return [TARGETS[inner[3]]() for _ in range(spec[2])]
    if inner[0] == "List":
        return [[0] * inner[2] for _ in range(spec[2])]
    if inner[0] in ("Dict", "Set"):
        return [({} if inner[0] == "Dict" else set()) for _ in range(spec[2])]
    if inner[0] == "Tuple":
        return [tuple(valid_default(L(m, 1, 1))[0] for m in inner[1:]) for _ in range(spec[2])]
    first = {"Int": 1, "Float": 0.5, "Str": "a", "Range": 1, "Enum": "red", "Either": 1, "CInt": 1,
             "Odd": 1, "NonEmpty": "a", "Unit": 0.5, "Lower": "a", "EvenC": 0, "Agreed": True,
             "SBytes": b"a", "File": FS.get("f1"), "Dir": FS.get("d1"), "String": "a"}[inner[0]]
    return [first for _ in range(spec[2])]


def _configs():
    out = []
    bounds = [(0, INF), (1, 3), (2, 2), (0, 0), (0, 2), (1, INF)]
    atoms = [INT, FLOAT, STR, RNG, ENUM, INST, INSTN, EITH, TUP, CINT]
    for lo, hi in bounds:
        out.append(L(INT, lo, hi))
    for i, a in enumerate(atoms[1:]):
        out.append(L(a))
        lo, hi = bounds[1 + i % 4]
        out.append(L(a, lo, hi))
    out += [
        L(L(INT)), L(L(INT, 0, 2), 0, 3), L(L(INT, 1, 2), 1, 3), L(L(STR, 0, 2)), L(L(RNG, 1, 3), 0, 2),
        L(L(CINT, 0, 3), 2, 2), L(D(STR, INT)), L(D(STR, INT), 1, 3), L(S(INT)), L(S(INT), 0, 2),
        L(L(TUP, 0, 2)), L(L(EITH), 0, 3),
    ]
    out += [
        D(STR, INT), D(STR, L(INT)), D(STR, L(INT, 0, 2)), D(STR, L(INT, 1, 3)), D(INT, STR), D(ENUM, RNG),
        D(TUP, FLOAT), D(CINT, STR), D(STR, D(STR, INT)), D(STR, S(INT)), D(STR, EITH), D(STR, INST),
        D(RNG, L(STR, 0, 2)), D(STR, CINT), D(STR, TUP), D(EITH, FLOAT),
    ]
    out += [S(INT), S(STR), S(RNG), S(ENUM), S(TUP), S(EITH), S(CINT), S(FLOAT), S(INST), S(INSTN)]
    return out


CONFIGS = _configs()

# Own stratum: containers whose inner trait is a value-dependent refinement of
# a Base scalar trait (user-defined TraitType subclasses and the library's
# File/Directory(exists=True), String(minlen, maxlen)), alone, inside
# Tuple/Either, and in nested containers.
REFINED_CONFIGS = [
    L(ODD), L(ODD, 1, 3), L(ODD, 2, 2), L(NEST), L(NEST, 0, 2), L(UNIT), L(UNIT, 1, 3), L(LOWER),
    L(EVENC), L(EVENC, 0, 2), L(AGREED), L(SBYTES), L(FILE), L(FILE, 1, 3), L(DIR), L(STRING),
    L(("Tuple", ODD, NEST)), L(("Either", ODD, NONE)), L(("Either", NEST, ODD), 0, 3),
    L(L(ODD)), L(L(NEST, 0, 2), 0, 3), L(L(UNIT, 1, 3)), L(L(FILE, 0, 2)), L(L(LOWER)),
    L(D(STR, ODD)), L(D(NEST, UNIT), 1, 3), L(S(ODD)), L(S(NEST), 0, 2),
    D(STR, ODD), D(ODD, STR), D(NEST, UNIT), D(LOWER, ODD), D(STR, FILE), D(DIR, INT), D(STR, AGREED),
    D(STR, L(ODD)), D(STR, L(NEST, 0, 2)), D(STR, L(UNIT, 1, 3)), D(ODD, L(FILE)), D(STR, S(ODD)),
    D(STR, D(NEST, ODD)), D(STR, ("Tuple", ODD, NEST)), D(SBYTES, EVENC), D(STRING, UNIT),
    S(ODD), S(NEST), S(UNIT), S(LOWER), S(EVENC), S(FILE), S(SBYTES), S(STRING),
    S(("Tuple", ODD, NEST)), S(("Either", ODD, NONE)),
]
_CLASSES = {}


def config_class(spec, flavour="plain"):
    c = _CLASSES.get((spec, flavour))
    if c is None:
        c = _CLASSES[(spec, flavour)] = make_class(build(spec, valid_default(spec)), flavour)
    return c


def bounds_tag(spec):
    if spec[0] != "List":
        return "-"
    return "%s..%s" % (spec[2], "inf" if spec[3] == INF else spec[3])


# --------------------------------------------------------------------------
# one history
# --------------------------------------------------------------------------

class History:
    def __init__(self, ctx, spec, rng, isect=False, flavour="plain", tag=None, cls=None, obj=None,
                 other=None, lazy=None, role=None):
        """cls / obj: an owner class declared elsewhere and an existing owner to
        adopt (stratum of declared defaults); otherwise the configuration's
        class and a fresh owner.  other: an existing second owner, adopted as it
        is (not populated).  lazy / role: stratum of by-name class references --
        the state shared by the histories of one freshly declared class, and
        this owner's role in it (see `LazyCase`)."""
        self.ctx = ctx
        self.lazy = lazy
        self.role = role
        self.phase = None
        self.tag = tag              # stratum tag: counters are also kept per stratum
        self.isect = isect
        self.flavour = flavour
        self.spec = spec
        self.kind = KIND_OF[spec[0]]
        self.rng = rng
        cls = self.cls = cls or config_class(spec, flavour)
        self.stale = []
        self.raw = lambda *a: LOG.append("raw")
        self.ops = []
        self.nested_spec = None
        if spec[0] in ("List", "Set") and spec[1][0] in CONTAINER:
            self.nested_spec = spec[1]
        if spec[0] == "Dict" and spec[2][0] in CONTAINER:
            self.nested_spec = spec[2]
        # `other`: a second owner of the same class, populated through assignment
        if other is None:
            self.other = cls()
            self.populate(self.other)
        else:
            self.other = other
        # `obj`: half of the owners are built with the container as a constructor
        # keyword; flavoured owners often start from the (empty) default, i.e. falsy
        self.obj = obj
        start_default = obj is None and flavour in ("len", "bool") and rng.random() < 0.4
        if obj is None and not start_default and rng.random() < 0.5:
            for _ in range(3):
                try:
                    self.obj = cls(**{NAME: gen(spec, rng, VALID)})
                    self.count("built_with_keyword")
                    break
                except TraitError:
                    pass
        if self.obj is None:
            self.obj = cls()
            if not start_default:
                self.populate(self.obj)
        if flavour == "bool" and rng.random() < 0.5:
            self.obj.__dict__[READY] = True
        obj = self.obj
        obj.on_trait_change(lambda: LOG.append("otc:xs"), NAME)
        obj.on_trait_change(lambda: LOG.append("otc:xs_items"), NAME + "_items")
        obj.observe(lambda e: LOG.append("observe:xs"), NAME)
        obj.observe(lambda e: LOG.append("observe:xs.items"), NAME + ".items")
        if self.nested_spec is not None:
            obj.observe(lambda e: LOG.append("observe:xs.items.items"), NAME + ".items.items")
        getattr(obj, NAME)

    # -- helpers ---------------------------------------------------------
    def count(self, name, n=1):
        self.ctx.count(name, n)
        if self.tag:
            self.ctx.count(self.tag + "_" + name, n)

    def trap(self, present, route, outcome):
        """Stratum bookkeeping: an argument held a non-valid item of exactly
        the refined trait's base Python type."""
        if present:
            self.count("exact_type_trap_ops")
            self.count("exact_type_trap_" + route)
            if outcome == "TraitError":
                self.count("exact_type_trap_rejections")

    def populate(self, o):
        for _ in range(3):
            try:
                setattr(o, NAME, gen(self.spec, self.rng, VALID))
                return
            except TraitError:
                pass

    def perturb_owner(self):
        """Owner-level events between operations (not operations on the value)."""
        if self.flavour == "bool" and self.rng.random() < 0.08:
            d = self.obj.__dict__
            d[READY] = not d.get(READY, False)
        elif self.flavour == "eq" and self.rng.random() < 0.3:
            # make the second owner EQUAL to this one (same contents, other object)
            try:
                setattr(self.other, NAME, plain(getattr(self.obj, NAME)))
            except TraitError:
                pass

    def owner_state(self, kind):
        """Count and name the owner's state at the time of the operation."""
        f = self.flavour
        if f == "plain":
            return "plain"
        self.count("flavour_%s_ops" % f)
        if f == "eq":
            if self.obj == self.other and self.obj is not self.other:
                self.count("equal_owner_ops")
                return "eq-equal"
            return "eq-distinct"
        if not self.obj:
            self.count("falsy_owner_ops")
            self.count("falsy_%s_ops" % kind)
            self.count("falsy_%s_owner_ops" % f)
            return f + "-falsy"
        self.count("truthy_flavoured_ops")
        return f + "-truthy"

    def gen_op(self, tspec, target, top, borrow):
        kind = KIND_OF[tspec[0]]
        if kind == "set":
            name = None
            if self.isect and self.rng.random() < 0.7:
                name = self.rng.choice(("iand", "intersection_update"))
            return gen_set_op(self.rng, tspec, target, top, borrow, self.isect, name)
        return GEN_OP[kind](self.rng, tspec, target, top, borrow)

    def borrow(self, spec):
        """An existing trait container of spec `spec` (own or foreign)."""
        if spec != self.nested_spec:
            return None
        src = getattr(self.other if self.rng.random() < 0.6 else self.obj, NAME)
        pool = list(dict.values(src)) if isinstance(src, dict) else list(src)
        return self.rng.choice(pool) if pool else None

    def nested(self):
        cur = getattr(self.obj, NAME)
        if self.nested_spec is None:
            return []
        return list(dict.values(cur)) if isinstance(cur, dict) else list(cur)

    def attach_raw(self):
        cur = getattr(self.obj, NAME)
        for c in [cur] + self.nested():
            ns = getattr(c, "notifiers", None)
            if ns is not None and not any(n is self.raw for n in ns):
                ns.append(self.raw)

    def note_lazy(self, cands, route):
        """Stratum bookkeeping (harness-side knowledge only): is this the first
        operation on ANY owner of the class that submits an object at a position
        whose class is given by name -- the moment the reference has to be
        resolved --, or does it come before / after that moment?"""
        st = self.lazy
        if st is None:
            return
        touch = any(touches_lazy(sp, v) for sp, v in cands)
        if st["touched"]:
            self.phase = "post"
            self.count("ops_post")
            # whose value is operated on: the owner whose operation resolved the
            # reference, ANOTHER owner created before that moment, or one created after it
            self.count("ops_post_late_owner" if self.role == "late" else
                       "ops_post_resolving_owner" if self.role == st["resolver"] else
                       "ops_post_other_early_owner")
            if touch:
                self.count("ops_post_with_named_class_item")
        elif touch:
            st["touched"] = True
            st["by"] = "%s:%s" % (self.role, route)
            st["resolver"] = None if route == "construct" else self.role
            self.phase = "first"
            self.count("first_resolving_ops")
            self.count("first_by_" + route)
            self.count("first_on_" + self.role)
            bad = any(classify(sp, v) == INVALID for sp, v in cands)
            self.count("first_with_invalid_item" if bad else "first_all_valid")
        else:
            self.phase = "pre"
            self.count("ops_pre")
        if len(st["trail"]) < 40:
            st["trail"].append("%s:%s:%s" % (self.role, route, self.phase))
        self.ctx.sig("lazy", spec_name(self.spec), st["how"], st["default"], route, self.phase, self.role)

    def fail(self, kind, opname, complaint, msg, extra):
        w = {"config": spec_name(self.spec), "owner_flavour": self.flavour,
             "owner_truth_value": bool(self.obj), "history": [short(show(o), 300) for o in self.ops],
             "value": short(plain(getattr(self.obj, NAME)), 400)}
        w.update(extra)
        if self.lazy is not None:
            opname = "byname-" + opname
            w.update({"class_reference": self.lazy["how"], "owner_role": self.role, "phase": self.phase,
                      "first_resolving_operation": self.lazy["by"], "class_history": list(self.lazy["trail"])})
        self.ctx.violation("%s/%s/%s" % (kind, opname, complaint),
                           "%s: %s on %s; op=%s; %s" % (complaint, opname, spec_name(self.spec),
                                                        short(show(self.ops[-1]) if self.ops else None, 300), msg), w)
        return True

    def walk(self, kind, opname, obj=None):
        """Invariant walk of the CURRENT trait value.  True if violated."""
        obj = self.obj if obj is None else obj
        cur = getattr(obj, NAME)
        Counter.n = 0
        try:
            walk_container(self.spec, cur, obj, NAME)
        except Walk as w:
            self.count("elements_walked", Counter.n)
            return self.fail(kind, opname, w.complaint, "at %s: %s" % (w.where, short(w.item)),
                             {"where": w.where, "item": short(w.item)})
        self.count("elements_walked", Counter.n)
        return False

    # -- one step ----------------------------------------------------------
    def step(self, forced=None):
        """Generate, run and judge one operation.  True if a violation was reported."""
        ctx, rng, obj = self.ctx, self.rng, self.obj
        if forced is None:
            self.perturb_owner()
        cur = getattr(obj, NAME)
        r = rng.random()
        if forced is not None:
            where, target, tspec, op = "top", cur, self.spec, forced
        elif r < 0.035:
            return self.step_construct()
        elif r < 0.125:
            return self.step_assign()
        elif r < 0.19 and self.stale:
            where = "stale"
            target, tspec = rng.choice(self.stale), self.spec
            op = self.gen_op(tspec, target, False, self.borrow)
        elif r < 0.46 and self.nested():
            where = "nested"
            target, tspec = rng.choice(self.nested()), self.nested_spec
            op = self.gen_op(tspec, target, False, None)
        else:
            where, target, tspec = "top", cur, self.spec
            op = self.gen_op(tspec, target, True, self.borrow)
        kind = KIND_OF[tspec[0]]
        if kind == "set" and op[0] in ISECT_OPS and where != "stale":
            members = list(set.__iter__(target))
            args = [x for _, x in arg_items(kind, op, tspec)]
            if any(hashable(x) and any(m is not x and m == x for m in members) for x in args):
                self.count("isect_twin_ops")
        opname = op[0] if where != "stale" else "stale-" + op[0]
        self.ops.append((where,) + tuple(op))
        self.count(where + "_ops" if where != "top" else "top_ops")
        self.count(kind + "_ops")
        ostate = self.owner_state(kind)

        # what built-in semantics would do
        model = plain(target)
        try:
            apply_op(kind, model, op)
            model_exc = None
        except Exception as e:                     # noqa: BLE001
            model_exc = e
        cands = arg_items(kind, op, tspec)
        classes = [classify(sp, v) for sp, v in cands]
        # an invalid argument item "would be stored" when the built-in container,
        # given the same operation, ends up holding that very object
        # (not for the intersection operators: that CPython's set keeps the
        # argument's object rather than the equal member is an accident of the
        # built-in; an intersection need not store anything, so nothing has to
        # be refused -- the invariant walk judges what is actually held)
        held = held_ids(kind, model, tspec) if model_exc is None and op[0] not in ISECT_OPS else ()
        items_bad = any(c == INVALID and (cv[0], id(cv[1])) in held for c, cv in zip(classes, cands))
        len_bad = (model_exc is None and kind == "list"
                   and not tspec[2] <= len(model) <= tspec[3])

        self.note_lazy(cands, "item-op" if where == "top" else where + "-item-op")
        before = snap(cur)
        pre = plain(cur)
        del LOG[:]
        try:
            apply_op(kind, target, op, owner=obj if where == "top" else None)
            exc = None
        except Exception as e:                     # noqa: BLE001
            exc = e
        log = LOG[:]
        ctx.ev()

        newcur = getattr(obj, NAME)
        if newcur is not cur:
            self.stale.append(cur)
            del self.stale[:-3]
        after = snap(newcur)
        changed = not snap_same(before, after)
        outcome = "ok" if exc is None else ("TraitError" if isinstance(exc, TraitError) else type(exc).__name__)
        argclass = ("len+item" if items_bad and len_bad else "item-invalid" if items_bad else
                    "len-violating" if len_bad else "invalid-not-stored" if INVALID in classes else
                    "conv" if CONV in classes else "valid" if classes else "-")
        if changed or exc is not None or log:
            ctx.sig(self.kind, spec_name(self.spec[1]) if self.kind != "dict" else
                    spec_name(self.spec[1]) + ":" + spec_name(self.spec[2]), bounds_tag(self.spec),
                    where, op[0], argclass, outcome, changed, model_exc is not None, ostate.split("-")[-1])

        if self.tag == "refined" and where != "stale":
            self.trap(any(exact_type_trap(sp, x) for sp, x in cands),
                      (kind if where == "top" else "nested") + "_ops", outcome)
        if ostate.endswith("falsy") and outcome == "TraitError":
            self.count("falsy_owner_rejections")
        if ostate == "eq-equal" and any(isinstance(x, TRAIT_CONTAINERS) for _, x in cands):
            self.count("equal_owner_foreign_args")
        # 1. invariant walk of the current value, after every operation
        if self.walk(kind, opname):
            return True
        if where == "stale":
            # a stale container is not the trait value any more: nothing else is demanded
            return False
        # 2. failure atomicity: demanded of an operation that would violate the
        #    invariant, and of any operation the library itself refused with
        #    TraitError.  (Other exceptions are built-in container semantics --
        #    a sort() that fails while comparing, a multi-argument
        #    difference_update whose second argument is unhashable -- about which
        #    the statement says nothing; that is C05-C07's business.)
        violating = model_exc is None and (items_bad or len_bad)
        if exc is not None and outcome != "TraitError" and not violating:
            self.count("builtin_failures_seen")
        elif exc is not None:
            self.count("rejections_checked")
            same_tree = snap_same(before, after)
            if not same_tree:
                return self.fail(kind, opname, "changed-on-failure",
                                 "raised %s yet value went from %s to %s"
                                 % (outcome, short(pre, 300), short(plain(newcur), 300)),
                                 {"exception": short(exc, 300)})
            if log:
                return self.fail(kind, opname, "notified-on-failure",
                                 "raised %s yet notifications were delivered: %r" % (outcome, log[:6]),
                                 {"exception": short(exc, 300), "notifications": log[:10]})
        else:
            self.count("ops_succeeded")
            if log:
                self.count("notifications_seen", len(log))
                for m in set(log):
                    self.count("notif_" + m.split(":")[0] + ("_nested" if m.endswith("items.items") else ""))
            if CONV in classes and changed:
                self.count("convertible_items_stored")
        # 3. direction
        if violating:
            self.count("direction_checked")
            if self.phase:
                self.count("direction_" + self.phase)
            if len_bad:
                self.count("length_direction_checked")
            if exc is None:
                return self.fail(kind, opname,
                                 "no-traiterror-for-invalid-item" if items_bad else
                                 "no-traiterror-for-illegal-length",
                                 "the operation returned normally (built-in result would have length %s, "
                                 "argument classes %r)" % (len(model) if kind == "list" else "-", classes),
                                 {"classes": classes})
            if outcome != "TraitError":
                return self.fail(kind, opname, "wrong-exception-class",
                                 "raised %s instead of TraitError" % outcome, {"exception": short(exc, 300)})
        self.attach_raw()
        return False

    def step_assign(self):
        ctx, rng, obj = self.ctx, self.rng, self.obj
        cur = getattr(obj, NAME)
        r = rng.random()
        if r < 0.08:
            v, how = getattr(self.other, NAME), "foreign-container"
        elif r < 0.14:
            v, how = cur, "own-value"
        elif r < 0.20 and self.stale:
            v, how = rng.choice(self.stale), "stale-value"
        else:
            v = gen(self.spec, rng, rng.choice([VALID, VALID, CONV, INVALID, INVALID]), borrow=self.borrow)
            how = "fresh"
        cls = classify(self.spec, v)
        route = rng.choice(["setattr", "setattr", "trait_set"])
        self.ops.append(("assign", route, how, v if how == "fresh" else plain(v)))
        self.count("assign_ops")
        ostate = self.owner_state(self.kind)
        self.note_lazy([(self.spec, v)], "assign")
        before = snap(cur)
        pre = plain(cur)
        del LOG[:]
        try:
            if route == "setattr":
                setattr(obj, NAME, v)
            else:
                obj.trait_set(**{NAME: v})
            exc = None
        except Exception as e:                     # noqa: BLE001
            exc = e
        log = LOG[:]
        ctx.ev()
        newcur = getattr(obj, NAME)
        if newcur is not cur:
            self.stale.append(cur)
            del self.stale[:-3]
        outcome = "ok" if exc is None else ("TraitError" if isinstance(exc, TraitError) else type(exc).__name__)
        ctx.sig(self.kind, "assign", spec_name(self.spec), how, cls, outcome, route, ostate.split("-")[-1])
        kind = self.kind
        if self.tag == "refined":
            self.trap(exact_type_trap(self.spec, v), "assign", outcome)
        if ostate.endswith("falsy") and outcome == "TraitError":
            self.count("falsy_owner_rejections")
        if ostate == "eq-equal" and isinstance(v, TRAIT_CONTAINERS):
            self.count("equal_owner_foreign_args")
        if self.walk(kind, "assign"):
            return True
        if exc is not None:
            self.count("rejections_checked")
            if not snap_same(before, snap(newcur)):
                return self.fail(kind, "assign", "changed-on-failure",
                                 "raised %s yet value went from %s to %s"
                                 % (outcome, short(pre, 300), short(plain(newcur), 300)),
                                 {"exception": short(exc, 300)})
            if log:
                return self.fail(kind, "assign", "notified-on-failure",
                                 "raised %s yet notifications were delivered: %r" % (outcome, log[:6]),
                                 {"exception": short(exc, 300), "notifications": log[:10]})
        else:
            self.count("ops_succeeded")
            if log:
                self.count("notifications_seen", len(log))
                for m in set(log):
                    self.count("notif_" + m.split(":")[0] + ("_nested" if m.endswith("items.items") else ""))
            if cls == CONV:
                self.count("convertible_items_stored")
        if cls == INVALID:
            self.count("direction_checked")
            if self.phase:
                self.count("direction_" + self.phase)
            if exc is None:
                return self.fail(kind, "assign", "no-traiterror-for-invalid-item",
                                 "an invalid whole value was accepted", {"assigned": short(plain(v), 300)})
            if outcome != "TraitError":
                return self.fail(kind, "assign", "wrong-exception-class",
                                 "raised %s instead of TraitError" % outcome, {"exception": short(exc, 300)})
        self.attach_raw()
        return False


    def step_construct(self):
        """Whole-value assignment through the constructor: `Cls(xs=v)`.  The
        new owner is judged on its own (it does not replace `obj`)."""
        ctx, rng, kind = self.ctx, self.rng, self.kind
        r = rng.random()
        if r < 0.10:
            v, how = getattr(self.other, NAME), "foreign-container"
        elif r < 0.18:
            v, how = getattr(self.obj, NAME), "foreign-container"
        else:
            v = gen(self.spec, rng, rng.choice([VALID, VALID, CONV, INVALID, INVALID]), borrow=self.borrow)
            how = "fresh"
        cls = classify(self.spec, v)
        self.ops.append(("construct", how, v if how == "fresh" else plain(v)))
        self.count("construct_ops")
        if self.flavour in ("len", "bool"):
            self.count("falsy_construct_ops")
        self.note_lazy([(self.spec, v)], "construct")
        del LOG[:]
        new = None
        try:
            new = self.cls(**{NAME: v})
            exc = None
        except Exception as e:                     # noqa: BLE001
            exc = e
        log = LOG[:]
        ctx.ev()
        outcome = "ok" if exc is None else ("TraitError" if isinstance(exc, TraitError) else type(exc).__name__)
        ctx.sig(kind, "construct", spec_name(self.spec), how, cls, outcome, self.flavour)
        if self.tag == "refined":
            self.trap(exact_type_trap(self.spec, v), "construct", outcome)
        if new is not None:
            if self.walk(kind, "construct", new):
                return True
            self.count("ops_succeeded")
            if log:
                self.count("notifications_seen", len(log))
            if cls == CONV:
                self.count("convertible_items_stored")
        else:
            self.count("rejections_checked")
            self.count("construct_rejections")
            if log:
                return self.fail(kind, "construct", "notified-on-failure",
                                 "raised %s yet notifications were delivered: %r" % (outcome, log[:6]),
                                 {"exception": short(exc, 300), "notifications": log[:10]})
        if cls == INVALID:
            self.count("direction_checked")
            if self.phase:
                self.count("direction_" + self.phase)
            if exc is None:
                return self.fail(kind, "construct", "no-traiterror-for-invalid-item",
                                 "an invalid whole value was accepted by the constructor",
                                 {"assigned": short(plain(v), 300)})
            if outcome != "TraitError":
                return self.fail(kind, "construct", "wrong-exception-class",
                                 "raised %s instead of TraitError" % outcome, {"exception": short(exc, 300)})
        return False


# --------------------------------------------------------------------------
# deterministic single-operation grid for lists
# --------------------------------------------------------------------------

def grid_ops(rng, spec, n):
    """Every list mutator on a list of length n, argument lists of 0..3 items
    with an invalid item at each position (and none)."""
    inner = spec[1]

    def items(k, bad):
        out = [gen(inner, rng, CONV if rng.random() < 0.25 else VALID) for _ in range(k)]
        if bad is not None:
            out[bad] = gen(inner, rng, INVALID)
        return out
    idx = sorted({0, n - 1, n, -1, -n, -n - 1} if n else {0, -1, 1})
    for i in idx:
        for bad in (None, 0):
            yield ("setitem", i, items(1, bad)[0])
            yield ("insert", i, items(1, bad)[0])
        yield ("delitem", i)
        yield ("pop", i)
    yield ("pop",)
    for bad in (None, 0):
        yield ("append", items(1, bad)[0])
    for k in range(0, 4):
        for bad in [None] + list(range(k)):
            for name in ("extend", "iadd", "attr_iadd"):
                yield (name, items(k, bad), "list")
            for s in ((None, None, None), (0, 0, None), (n, None, None), (0, 1, None), (1, None, 1),
                      (None, -1, None), (0, 2, 1)):
                yield ("setslice", s, items(k, bad), "list")
    for s in ((None, None, 2), (None, None, -1), (1, None, 2), (None, None, n + 1)):
        try:
            k = len(range(n)[mk_slice(s)])
        except ValueError:
            k = 0
        for bad in [None] + list(range(k)):
            yield ("setslice", s, items(k, bad), "list")
        yield ("setslice", s, items(k + 1, None), "list")
        yield ("delslice", s)
    for s in ((None, None, None), (0, 1, None), (1, None, None), (None, -1, None), (n, None, None)):
        yield ("delslice", s)
    for m in (-1, 0, 1, 2, 3):
        yield ("imul", m)
        yield ("attr_imul", m)
    yield ("clear",)
    yield ("reverse",)
    for mode in ("plain", "rev", "key", "keyrev"):
        yield ("sort", mode)
    yield ("remove", "first")
    yield ("remove", "last")
    yield ("remove", gen(inner, rng, VALID))
    yield ("remove", gen(inner, rng, INVALID))


def run_grid(ctx, gi, spec, prefix="grid", maxlen=4, tag=None):
    lo, hi = spec[2], spec[3]
    for n in range(lo, min(hi, maxlen) + 1):
        case = "%s:%d:%d" % (prefix, gi, n)
        if not ctx.mine(gi * 7 + n):
            continue
        if not ctx.begin(case, {"config": spec_name(spec), "length": n}):
            continue
        try:
            rng = ctx.rng(prefix, gi, n)
            ops = list(grid_ops(rng, spec, n))
            for k, op in enumerate(ops):
                h = History(ctx, spec, ctx.rng(prefix, gi, n, "h"), flavour=FLAVOURS[(gi + n + k) % len(FLAVOURS)],
                            tag=tag)
                items = [gen(spec[1], rng, VALID) for _ in range(n)]
                try:
                    setattr(h.obj, NAME, items)
                except TraitError:
                    continue
                cur = getattr(h.obj, NAME)
                if len(cur) != n:
                    continue
                h.attach_raw()
                if op[0] == "remove" and op[1] in ("first", "last"):
                    if not n:
                        continue
                    op = ("remove", list.__getitem__(cur, 0 if op[1] == "first" else n - 1))
                h.count("grid_cases")
                if h.step(forced=op):
                    break
        finally:
            ctx.end()


# --------------------------------------------------------------------------
# stratum: declared defaults, and sibling owners living on one declared default
# --------------------------------------------------------------------------
# Every other stratum starts from a value that went through whole-value
# assignment.  Here the trait value is whatever the DECLARATION provides: the
# implicit default, a default given in the declaration / by a `_xs_default`
# method / by a subclass override -- legal, convertible, or illegal (too short,
# too long, an invalid item, an illegal nested container, not a container at
# all).  The statement does not say what such a declaration must do, only that
# no trait VALUE is ever illegal: so whatever a materialisation route stores,
# returns or hands to a listener is walked; nothing else is demanded of an
# illegal default (refusing the read, as the library does, is fine).  Several
# owners of one class live on the same declared default, some are collected,
# later ones are created, and ordinary histories run on the survivors.

MISSING = object()
DEFAULT_KINDS = ("implicit", VALID, VALID, CONV, INVALID, INVALID, INVALID)
PROVIDERS = ("declared", "declared", "declared", "method", "override")
ROUTES = ("read", "read", "trait_get", "assign-listened", "assign-observed", "observe-items", "revert")
DEFAULT_CONFIGS = CONFIGS + [
    D(STR, L(INT, 0, 3)), D(STR, L(INT, 2, 3)), D(INT, L(STR, 1, 2)), D(STR, S(STR)), D(INT, D(STR, INT)),
    D(STR, D(STR, L(INT, 0, 2))), L(L(INT, 2, 3), 1, 2), L(L(L(INT, 1, 2), 0, 2)), L(D(STR, L(INT, 1, 3))),
    L(S(STR), 1, 2), L(INT, 2, 4), L(STR, 3, INF), L(FLOAT, 1, 2),
]
BASE_CLASS = {"List": list, "Dict": dict, "Set": set}


def nested_values(spec, raw):
    """(inner spec, value) of the container-valued positions of a raw default."""
    if spec[0] == "Dict":
        return [(spec[2], v) for v in raw.values()] if spec[2][0] in CONTAINER else []
    return [(spec[1], v) for v in raw] if spec[1][0] in CONTAINER else []


def default_tag(spec, raw):
    """Structural class of a declared default."""
    if raw is None:
        return "implicit-short" if spec[0] == "List" and spec[2] > 0 else "implicit"
    c = classify(spec, raw)
    if c != INVALID:
        return c
    if not isinstance(raw, BASE_CLASS[spec[0]]):
        return "wrong-type"
    if spec[0] == "List" and len(raw) < spec[2]:
        return "short"
    if spec[0] == "List" and len(raw) > spec[3]:
        return "long"
    try:
        if any(not accepts(sp, v) for sp, v in nested_values(spec, raw)):
            return "bad-nested"
    except TypeError:
        pass
    return "bad-item"


LEGAL_TAGS = ("implicit", VALID, CONV)


def make_default_class(spec, raw, provider, flavour):
    if provider == "declared":
        return make_class(build(spec, raw), flavour)
    base = make_class(build(spec, valid_default(spec)), flavour)
    if provider == "method":
        class M(base):
            def _xs_default(self):
                return plain(raw)
        return M

    class O(base):
        xs = plain(raw)
    return O


def shape_walk(spec, c, where):
    """Legal shape of a container that WAS the trait value (handed to a
    listener as old / new): class, bounds, items in the domain."""
    t = spec[0]
    if not isinstance(c, CLASS_OF[t]):
        raise Walk("not-a-trait-container", where, c)
    if t == "List":
        if not spec[2] <= len(c) <= spec[3]:
            raise Walk("length-bound-not-enforced", where, c)
        pairs = [(spec[1], e) for e in list.__iter__(c)]
    elif t == "Dict":
        pairs = [(spec[1], k) for k in dict.keys(c)] + [(spec[2], v) for v in dict.values(c)]
    else:
        pairs = [(spec[1], e) for e in set.__iter__(c)]
    for sp, e in pairs:
        Counter.n += 1
        if sp[0] in CONTAINER:
            shape_walk(sp, e, where + ".item")
        elif not in_domain(sp, e):
            raise Walk("unconverted-item-stored" if accepts(sp, e) else "invalid-item-stored", where + ".item", e)


class DefaultCase:
    def __init__(self, ctx, spec, rng, cls, flavour, raw, tag, provider):
        self.ctx, self.spec, self.rng, self.cls = ctx, spec, rng, cls
        self.flavour, self.raw, self.tag, self.provider = flavour, raw, tag, provider
        self.kind = KIND_OF[spec[0]]
        self.sub = None
        self.trail = []

    def count(self, name, n=1):
        self.ctx.count("default_" + name, n)

    def fail(self, opname, w):
        self.ctx.violation("%s/default-%s/%s" % (self.kind, opname, w.complaint),
                           "%s: default-%s on %s (default %s, provided by %s); at %s: %s"
                           % (w.complaint, opname, spec_name(self.spec), self.tag, self.provider, w.where,
                              short(w.item)),
                           {"config": spec_name(self.spec), "default": short(self.raw, 300),
                            "default_class": self.tag, "provider": self.provider, "owner_flavour": self.flavour,
                            "owners": self.trail, "where": w.where, "item": short(plain(w.item), 300)})
        return True

    def new_owner(self):
        cls = self.cls
        if self.rng.random() < 0.2:
            if self.sub is None:
                class Sub(cls):
                    pass
                self.sub = Sub
            cls = self.sub
            self.count("subclass_owners")
        o = cls()
        if self.flavour == "bool" and self.rng.random() < 0.5:
            o.__dict__[READY] = True
        return o

    def judge(self, o, opname, ret=MISSING, handed=()):
        """Walk whatever is stored in / was returned by / was handed out by `o`."""
        self.ctx.ev()
        Counter.n = 0
        try:
            stored = o.__dict__.get(NAME, MISSING)
            if stored is not MISSING:
                walk_container(self.spec, stored, o, NAME)
            if ret is not MISSING and ret is not stored:
                walk_container(self.spec, ret, o, "returned")
            for old, new in handed:
                for label, v in (("old", old), ("new", new)):
                    if isinstance(v, (list, dict, set)):
                        self.count("handed_values")
                        shape_walk(self.spec, v, label)
        except Walk as w:
            return self.fail(opname, w)
        finally:
            self.count("elements_walked", Counter.n)
        return False

    def materialise(self, o, route, position):
        """One route by which the declared default becomes the trait value."""
        spec, rng = self.spec, self.rng
        handed = []
        ret = MISSING
        self.trail.append("%s:%s" % (position, route))
        self.count("owners")
        self.count("route_" + route)
        del LOG[:]
        try:
            if route == "read":
                ret = getattr(o, NAME)
            elif route == "trait_get":
                ret = o.trait_get(NAME).get(NAME, MISSING)
            elif route == "assign-listened":
                o.on_trait_change(lambda obj, name, old, new: handed.append((old, new)), NAME)
                setattr(o, NAME, gen(spec, rng, VALID))
            elif route == "assign-observed":
                o.observe(lambda e: handed.append((e.old, e.new)), NAME)
                setattr(o, NAME, gen(spec, rng, VALID))
            elif route == "observe-items":
                o.observe(lambda e: None, NAME + ".items")
                o.on_trait_change(lambda: None, NAME + "_items")
                ret = o.__dict__.get(NAME, MISSING)
            else:
                # revert: a value is assigned, then deleted -- the default is the value again
                o.on_trait_change(lambda obj, name, old, new: handed.append((old, new)), NAME)
                setattr(o, NAME, gen(spec, rng, VALID))
                delattr(o, NAME)
                ret = getattr(o, NAME)
            raised = None
        except Exception as e:                     # noqa: BLE001
            raised = type(e)       # (not the exception: its traceback would keep the owner alive)
        has = NAME in o.__dict__
        outcome = ("materialised" if has else "nothing-stored") + ("" if raised is None else "+raised")
        if has:
            self.count("materialised")
        if raised is not None:
            self.count("routes_raised")
            if issubclass(raised, TraitError) and not has:
                self.count("refused")
                if self.tag not in LEGAL_TAGS:
                    self.count("illegal_refused")
        self.ctx.sig("default", self.kind, spec_name(self.spec), self.tag, self.provider, route, outcome, position,
                     self.flavour)
        return self.judge(o, route, ret, handed)

    def run(self):
        ctx, rng = self.ctx, self.rng
        n = rng.choice((1, 2, 2, 3))
        owners = []
        for i in range(n):
            o = self.new_owner()
            if self.materialise(o, rng.choice(ROUTES), "first" if i == 0 else "sibling"):
                return
            owners.append(o)
        o = None
        if n > 1:
            self.count("sibling_cases")
            if self.tag in LEGAL_TAGS and self.raw is not None and nested_values(self.spec, self.raw):
                self.count("nested_shared_cases")     # siblings on one default that holds containers
            # some owners go away; the others live on
            k = rng.randint(1, n - 1)
            for i in sorted(rng.sample(range(n), k), reverse=True):
                self.trail.append("collected:%d" % i)
                if i == 0:
                    self.count("first_owner_collected")
                r = weakref.ref(owners.pop(i))
                if r() is not None:
                    gc.collect()
                    self.count("gc_collections")
                if r() is None:
                    self.count("owners_collected")
            for o in owners:
                if self.judge(o, "sibling-collected"):
                    return
            o = self.new_owner()
            self.count("late_siblings")
            if self.materialise(o, rng.choice(ROUTES), "late"):
                return
            owners.append(o)
        live = [o for o in owners if NAME in o.__dict__]
        if not live:
            return
        # an ordinary history on one of the owners that live on the default
        obj = rng.choice(live)
        self.trail.append("history")
        h = History(ctx, self.spec, rng, flavour=self.flavour, tag="default", cls=self.cls, obj=obj)
        if NAME not in h.other.__dict__:
            return
        h.attach_raw()
        for _ in range(8):
            h.count("history_ops")
            if h.step():
                return
        for o in live:
            if o is not obj and self.judge(o, "sibling-after-history"):
                return


def run_defaults(ctx, nh):
    for hno in range(nh):
        if not ctx.mine(hno):
            continue
        spec = DEFAULT_CONFIGS[hno % len(DEFAULT_CONFIGS)]
        flavour = FLAVOURS[(hno // len(DEFAULT_CONFIGS)) % len(FLAVOURS)]
        if not ctx.begin("dflt:%d" % hno, {"config": spec_name(spec), "owner": flavour}):
            continue
        try:
            rng = ctx.rng("dflt", hno)
            kind = rng.choice(DEFAULT_KINDS)
            provider = "declared" if kind == "implicit" else rng.choice(PROVIDERS)
            raw = None if kind == "implicit" else gen(spec, rng, kind)
            if raw is None and provider == "declared":
                kind = "implicit"              # `List(T, None)` IS the implicit default
            tag = default_tag(spec, raw) if raw is not None or kind == "implicit" else "wrong-type"
            ctx.count("default_cases")
            ctx.count("default_class_" + tag)
            ctx.count("default_provider_" + provider)
            if tag not in LEGAL_TAGS:
                ctx.count("default_illegal_declared")
            try:
                cls = make_default_class(spec, raw, provider, flavour)
            except Exception:                      # noqa: BLE001
                # the declaration itself was refused: no value can come of it
                ctx.count("default_declarations_refused")
                continue
            DefaultCase(ctx, spec, rng, cls, flavour, raw, tag, provider).run()
        finally:
            ctx.end()


# --------------------------------------------------------------------------
# stratum: inner traits whose class is given by NAME (forward references)
# --------------------------------------------------------------------------
# `Instance("X")` is resolved lazily, the first time a value is validated against
# it; what the trait does before, during and after that moment -- on the owner
# whose operation triggered it, on owners created before it and on owners created
# after it -- is one more dimension of "every mutating operation, every prior
# state".  Every case DECLARES A NEW CLASS (a fresh, unresolved reference) with
# the by-name Instance in one or several inner positions (list item, set item,
# dict key, dict value, both, item of a nested container, dict key next to a
# nested container value, Tuple / Either member inside a container), spelled in
# one of three ways (bare name looked up in the declaring module, dotted path,
# bare name + `module=`).  Two owners are created first; nothing is populated
# (the values start from the declared default: implicit, or a legal non-empty
# one -- materialising that is then the resolving moment); ordinary histories
# (same generators, same three oracles) run interleaved on the early owners and,
# from the first operation that submits an object at a by-name position (an item
# operation, a whole-value assignment, a constructor keyword; with valid or
# with invalid items), on an owner created after it.  Nothing in the statement
# depends on how the class was spelled: the reference is the one of
# Instance(<class>).

FX, FXN, FZ, FZN = FWD("X"), FWD("X", True), FWD("Z"), FWD("Z", True)
LAZY_HOWS = ("bare", "dotted", "module")
LAZY_CONFIGS = [
    # list item / set item
    L(FX), L(FXN), L(FX, 1, 3), L(FZN, 0, 2), S(FX), S(FXN), S(FZ),
    # dict key
    D(FX, FLOAT), D(FX, INT), D(FXN, STR), D(FZ, RNG), D(FX, EITH), D(FX, TUP), D(FX, INSTN), D(FZ, INST),
    # dict value
    D(STR, FX), D(INT, FXN), D(ENUM, FZ),
    # dict key and dict value
    D(FX, FZ), D(FZ, FXN), D(FX, FX), D(FXN, FZN),
    # item of a nested container
    L(L(FX)), L(L(FXN, 0, 2), 0, 3), L(S(FX)), L(D(FX, INT)), L(D(STR, FX)), D(STR, L(FX)), D(STR, S(FZ)),
    D(STR, D(FX, FLOAT)), D(INT, D(STR, FXN)),
    # dict key by name, nested container as value
    D(FX, L(STR)), D(FX, L(INT, 0, 2)), D(FX, S(INT)), D(FX, D(STR, INT)), D(FX, L(FZ)), D(FZN, L(FX)),
    # Tuple member inside a container
    L(("Tuple", FX, STR)), L(("Tuple", INT, FXN)), S(("Tuple", FX, INT)), D(("Tuple", FX, INT), FLOAT),
    D(STR, ("Tuple", FZ, FX)), D(FX, ("Tuple", INT, STR)),
    # Either member inside a container
    L(("Either", FX, INT)), L(("Either", INT, FX)), L(("Either", FX, NONE)), S(("Either", FZ, STR)),
    D(("Either", FX, STR), INT), D(STR, ("Either", FX, FZ)), D(FX, ("Either", STR, NONE)),
]


def with_how(spec, how):
    if spec[0] == "Fwd":
        return ("Fwd", spec[1], how, spec[3])
    return tuple(with_how(x, how) if isinstance(x, tuple) else x for x in spec)


def lazy_positions(spec, nested=False, out=None):
    """Structural tags of the inner positions that hold a by-name reference."""
    out = set() if out is None else out
    t = spec[0]
    roles = ([("list-item", spec[1])] if t == "List" else [("set-item", spec[1])] if t == "Set" else
             [("dict-key", spec[1]), ("dict-value", spec[2])])
    for role, inner in roles:
        if inner[0] == "Fwd":
            out.add(role)
            if nested:
                out.add("nested-" + role)
        elif inner[0] in ("Tuple", "Either") and any(m[0] == "Fwd" for m in inner[1:]):
            out.add(role)
            out.add(inner[0].lower() + "-member")
        elif inner[0] in CONTAINER:
            lazy_positions(inner, True, out)
    if "dict-key" in out and t == "Dict" and spec[2][0] in CONTAINER and not nested:
        out.add("dict-key-with-container-value")
    return out


def touches_lazy(spec, v):
    """Would validating `v` against spec submit an object (not None) to a
    by-name Instance?  (harness-side estimate, used for bookkeeping only)"""
    t = spec[0]
    if t == "Fwd":
        return v is not None
    if t == "Tuple":
        return (isinstance(v, tuple) and len(v) == len(spec) - 1
                and any(touches_lazy(m, x) for m, x in zip(spec[1:], v)))
    if t == "Either":
        for m in spec[1:]:
            if touches_lazy(m, v):
                return True
            if accepts(m, v):
                return False
        return False
    if t == "List":
        return isinstance(v, list) and any(touches_lazy(spec[1], x) for x in list.__iter__(v))
    if t == "Set":
        return isinstance(v, set) and any(touches_lazy(spec[1], x) for x in set.__iter__(v))
    if t == "Dict":
        return isinstance(v, dict) and any(touches_lazy(spec[1], k) or touches_lazy(spec[2], x)
                                           for k, x in dict.items(v))
    return False


class LazyCase:
    def __init__(self, ctx, spec, rng, flavour, how, rounds):
        self.ctx, self.spec, self.rng, self.flavour, self.how, self.rounds = ctx, spec, rng, flavour, how, rounds
        self.raw = None
        self.st = None
        self.cls = None

    def count(self, name, n=1):
        self.ctx.count("lazy_" + name, n)

    def start(self, obj, other, role):
        """Adopt an owner: listeners are hooked and its value (the declared
        default) is materialised and walked.  None: the case is over (a
        violation was reported, or the default was refused)."""
        st = self.st
        try:
            h = History(self.ctx, self.spec, self.rng, flavour=self.flavour, tag="lazy", cls=self.cls,
                        obj=obj, other=other, lazy=st, role=role)
        except TraitError:
            # the declared (legal) default was refused: nothing is stored, nothing to judge
            self.count("default_refused")
            return None
        self.count("owners_adopted")
        self.count("owners_adopted_" + ("after" if st["touched"] else "before") + "_first_resolution")
        if not st["touched"] and self.raw is not None and touches_lazy(self.spec, self.raw):
            st["touched"] = True
            st["by"] = role + ":default"
            st["resolver"] = role
            st["trail"].append("%s:default:first" % role)
            self.count("first_resolving_ops")
            self.count("first_by_default")
        h.attach_raw()
        h.phase = "post" if st["touched"] else "pre"
        if h.walk(h.kind, "initial"):
            return None
        return h

    def run(self):
        ctx, rng, spec = self.ctx, self.rng, self.spec
        raw, declared = valid_default(spec), "implicit"
        if raw is None and rng.random() < 0.25:
            raw, declared = gen(spec, rng, VALID), "given"
        self.raw = raw
        self.count("default_" + declared)
        self.cls = cls = make_class(build(spec, raw), self.flavour)
        self.st = st = {"touched": False, "by": None, "resolver": None, "how": self.how, "trail": [],
                        "default": declared}
        a, b = cls(), cls()                   # both exist before anything is resolved
        ha = self.start(a, b, "early-a")
        if not ha:
            return
        hb = hc = None
        if rng.random() < 0.5:
            hb = self.start(b, a, "early-b")
            if hb is None:
                return
        first = rng.random()
        for rnd in range(self.rounds):
            hs = [h for h in (ha, hb, hc) if h]
            rng.shuffle(hs)
            for h in hs:
                h.count("history_ops")
                if rnd == 0 and h is hs[0] and first < 0.35:
                    bad = h.step_assign() if first < 0.2 else h.step_construct()
                else:
                    bad = h.step()
                if bad:
                    return
            if st["touched"]:
                if hb is None:
                    # an early owner whose value is not even materialised before the resolution
                    hb = self.start(b, a, "early-b")
                    if hb is None:
                        return
                if hc is None:
                    hc = self.start(cls(), a, "late")
                    if hc is None:
                        return
        if st["touched"]:
            self.count("cases_resolved")
        for h in (ha, hb, hc):
            if h:
                self.count("final_walks")
                if h.walk(h.kind, "final"):
                    return


def run_lazy(ctx, nh, rounds):
    for hno in range(nh):
        if not ctx.mine(hno):
            continue
        base = LAZY_CONFIGS[hno % len(LAZY_CONFIGS)]
        k = hno // len(LAZY_CONFIGS)
        how = LAZY_HOWS[k % len(LAZY_HOWS)]
        flavour = FLAVOURS[(k // len(LAZY_HOWS)) % len(FLAVOURS)]
        spec = with_how(base, how)
        if not ctx.begin("lazy:%d" % hno, {"config": spec_name(spec), "class_reference": how, "owner": flavour}):
            continue
        try:
            ctx.count("lazy_cases")
            ctx.count("lazy_name_" + how)
            for tagname in sorted(lazy_positions(spec)):
                ctx.count("lazy_pos_" + tagname)
            case = LazyCase(ctx, spec, ctx.rng("lazy", hno), flavour, how, rounds)
            case.run()
            if hno // ctx.nshards < 1:
                ctx.sample({"config": spec_name(spec), "class_reference": how, "owner": flavour,
                            "class_history": case.st["trail"][:12] if case.st else None}, cap=8)
        finally:
            ctx.end()


# --------------------------------------------------------------------------
# self-test of the reference (oracle consistency, no traits involved)
# --------------------------------------------------------------------------

def selftest(ctx):
    rng = ctx.rng("selftest")
    n = 0
    for spec in [INT, FLOAT, STR, RNG, ENUM, INST, INSTN, EITH, TUP, CINT, ODD, NEST, UNIT, LOWER, EVENC,
                 AGREED, SBYTES, FILE, DIR, STRING, ("Tuple", ODD, NEST), ("Either", ODD, NONE),
                 ("Either", NEST, ODD), FX, FXN, FZ, FZN, ("Tuple", FX, STR), ("Either", FX, INT),
                 ("Either", FX, FZ), ("Either", FX, NONE)]:
        for want in (VALID, CONV, INVALID):
            for _ in range(40):
                v = gen(spec, rng, want)
                ok = accepts(spec, v)
                n += 1
                if want == INVALID and ok:
                    raise AssertionError("reference accepts an intended-invalid value %r for %s" % (v, spec))
                if want != INVALID and not ok:
                    raise AssertionError("reference rejects an intended-valid value %r for %s" % (v, spec))
                if want != INVALID and classify(spec, v) != (want if has_conv(spec) else VALID):
                    raise AssertionError("pool class of %r for %s is not %s" % (v, spec, want))
                if ok and not in_domain(spec, convert(spec, v)):
                    raise AssertionError("convert/in_domain disagree on %r for %s" % (v, spec))
                if want == INVALID and in_domain(spec, v):
                    raise AssertionError("in_domain accepts invalid %r for %s" % (v, spec))
    ctx.note("reference_selftest_values", n)


# --------------------------------------------------------------------------

def run(ctx):
    push_exception_handler(handler=lambda *a: HANDLER_EXC.append(a), reraise_exceptions=False, main=True)
    obs_push_exception_handler(handler=lambda e: HANDLER_EXC.append(e), reraise_exceptions=False)
    setup_refined_pools()
    selftest(ctx)
    ctx.note("configurations", [spec_name(s) for s in CONFIGS])
    ctx.note("refined_configurations", [spec_name(s) for s in REFINED_CONFIGS])

    # ---- deterministic grid (lists) ----------------------------------------
    for gi, spec in enumerate(CONFIGS):
        if spec[0] == "List":
            run_grid(ctx, gi, spec)

    # ---- random histories --------------------------------------------------
    nh = ctx.scale(12000, 300000)
    nops = 20
    for hno in range(nh):
        if not ctx.mine(hno):
            continue
        spec = CONFIGS[hno % len(CONFIGS)]
        flavour = FLAVOURS[(hno // len(CONFIGS)) % len(FLAVOURS)]
        if not ctx.begin("h:%d" % hno, {"config": spec_name(spec), "owner": flavour}):
            continue
        try:
            rng = ctx.rng("h", hno)
            h = History(ctx, spec, rng, flavour=flavour)
            h.attach_raw()
            if h.walk(h.kind, "initial"):
                continue
            for _ in range(nops):
                ctx.count("history_ops")
                if h.step():
                    break
            if hno // ctx.nshards < 3:
                ctx.sample({"config": spec_name(spec), "owner": flavour,
                            "history": [short(show(o), 200) for o in h.ops[:6]],
                            "final": short(plain(getattr(h.obj, NAME)), 200)})
        finally:
            ctx.end()
    # ---- stratum: value-dependent refinements of the Base scalar traits --------
    for gi, spec in enumerate(REFINED_CONFIGS):
        if spec[0] == "List":
            run_grid(ctx, gi, spec, prefix="rgrid", maxlen=2, tag="refined")
    for hno in range(ctx.scale(3600, 90000)):
        if not ctx.mine(hno):
            continue
        spec = REFINED_CONFIGS[hno % len(REFINED_CONFIGS)]
        flavour = FLAVOURS[(hno // len(REFINED_CONFIGS)) % len(FLAVOURS)]
        if not ctx.begin("r:%d" % hno, {"config": spec_name(spec), "owner": flavour}):
            continue
        try:
            h = History(ctx, spec, ctx.rng("r", hno), flavour=flavour, tag="refined")
            h.attach_raw()
            if h.walk(h.kind, "initial"):
                continue
            for _ in range(nops):
                h.count("history_ops")
                if h.step():
                    break
            if hno // ctx.nshards < 1:
                ctx.sample({"config": spec_name(spec), "owner": flavour,
                            "history": [short(show(o), 200) for o in h.ops[:6]],
                            "final": short(plain(getattr(h.obj, NAME)), 200)}, cap=6)
        finally:
            ctx.end()
    # ---- stratum: declared defaults / sibling owners on one default ------------
    run_defaults(ctx, ctx.scale(3200, 80000))
    # ---- stratum: inner traits whose class is given by name (forward references) --
    ctx.note("by_name_configurations", [spec_name(s) for s in LAZY_CONFIGS])
    run_lazy(ctx, ctx.scale(1500, 36000), 6)
    # ---- stratum: intersection with equal-but-not-identical operands ---------
    set_cfgs = [c for c in CONFIGS if c[0] == "Set" or (c[0] == "List" and c[1][0] == "Set")
                or (c[0] == "Dict" and c[2][0] == "Set")]
    for hno in range(ctx.scale(320, 6400)):
        if not ctx.mine(hno):
            continue
        spec = set_cfgs[hno % len(set_cfgs)]
        if not ctx.begin("isect:%d" % hno, {"config": spec_name(spec)}):
            continue
        try:
            h = History(ctx, spec, ctx.rng("isect", hno), isect=True)
            h.attach_raw()
            for _ in range(10):
                ctx.count("isect_ops")
                if h.step():
                    break
        finally:
            ctx.end()
    if HANDLER_EXC:
        ctx.count("handler_exceptions", len(HANDLER_EXC))
        ctx.note("first_handler_exception", short(HANDLER_EXC[0], 400))
