"""Small helpers shared by the monitors."""
import math


def ids(seq):
    return [id(x) for x in seq]


def exc_class(fn, *a, **k):
    """Run fn; return ('ok', result) or ('exc', exception instance)."""
    try:
        return ("ok", fn(*a, **k))
    except Exception as e:  # noqa: BLE001 - outcome classification
        return ("exc", e)


def _is_np(x):
    return type(x).__module__ == "numpy"


def same(a, b):
    """Exact type, then value; NaN-, signed-zero-, array- and container-aware."""
    if a is b:
        return True
    if type(a) is not type(b):
        return False
    try:
        if _is_np(a):
            import numpy as np
            if isinstance(a, np.ndarray):
                if a.shape != b.shape or a.dtype != b.dtype:
                    return False
                try:
                    return bool(np.array_equal(a, b, equal_nan=True))
                except TypeError:
                    return bool(np.array_equal(a, b))
            if isinstance(a, np.generic):
                if a.dtype != b.dtype:
                    return False
                try:
                    if a != a and b != b:
                        return True
                except Exception:
                    pass
                return bool(a == b)
        if isinstance(a, float):
            if a != a and b != b:
                return True
            return a == b and math.copysign(1.0, a) == math.copysign(1.0, b)
        if isinstance(a, complex):
            return same(a.real, b.real) and same(a.imag, b.imag)
        if isinstance(a, (list, tuple)):
            return len(a) == len(b) and all(same(x, y) for x, y in zip(a, b))
        if isinstance(a, dict):
            if len(a) != len(b):
                return False
            for k in a:
                if k not in b or not same(a[k], b[k]):
                    return False
            return True
        if isinstance(a, (set, frozenset)):
            return a == b
        r = a == b
        return bool(r)
    except Exception:
        return False


def short(x, n=120):
    try:
        r = repr(x)
    except BaseException as e:
        r = "<repr failed %s>" % type(e).__name__
    return r if len(r) <= n else r[:n] + "..."
