"""Child process entry point: runs one shard of one monitor against the snapshot."""
import argparse
import faulthandler
import importlib
import json
import logging
import os
import sys
import warnings


def main(argv=None):
    ap = argparse.ArgumentParser()
    ap.add_argument("prop")
    ap.add_argument("--meta", action="store_true")
    ap.add_argument("--tier", default="quick")
    ap.add_argument("--seed", type=int, default=0)
    ap.add_argument("--shard", type=int, default=0)
    ap.add_argument("--nshards", type=int, default=1)
    ap.add_argument("--phase", default="main")
    ap.add_argument("--out", default="/dev/stdout")
    ap.add_argument("--only", default=None)
    ap.add_argument("--resume-after", type=int, default=-1)
    args = ap.parse_args(argv)

    mod = importlib.import_module("vf.monitors." + args.prop.lower())
    if args.meta:
        meta = dict(mod.META)
        print("VFMETA " + json.dumps(meta))
        return 0

    # the snapshot, not the editable install, must be what we monitor
    import traits
    snap = os.environ.get("VF_SNAPSHOT")
    if snap and not os.path.abspath(traits.__file__).startswith(os.path.abspath(snap)):
        print("ERROR traits imported from %s, not from snapshot %s" % (traits.__file__, snap))
        return 3
    import traits.ctraits
    if snap and not os.path.abspath(traits.ctraits.__file__).startswith(os.path.abspath(snap)):
        print("ERROR ctraits imported from %s" % traits.ctraits.__file__)
        return 3

    faulthandler.enable(all_threads=True)
    warnings.simplefilter("ignore")
    logging.disable(logging.CRITICAL)

    from vf.ctx import Ctx
    ctx = Ctx(args.prop, args.tier, args.seed, args.shard, args.nshards, args.out,
              phase=args.phase, only=args.only, resume_after=args.resume_after,
              case_timeout=mod.META.get("case_timeout", 300))
    mod.run(ctx)
    ctx.finish()
    return 0


if __name__ == "__main__":
    sys.exit(main())
