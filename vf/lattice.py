"""Value lattice shared by the input-quantified monitors (C01, C14 ...).

`lattice()` returns a list of (id, class_label, value).  Ids are stable strings
(used in witnesses), class labels are coarse (used in mechanism keys).
Values are rebuilt on every call so monitors may not rely on identity across
calls; within one call equal-not-identical twins are distinct objects.
"""
import collections
import datetime
import math
import sys
import types

import numpy as np


class I(int):
    pass


class F(float):
    pass


class S(str):
    pass


class T(tuple):
    pass


class L(list):
    pass


class B(bytes):
    pass


NT = collections.namedtuple("NT", "a b")


class Idx:
    def __init__(self, v):
        self.v = v

    def __index__(self):
        if isinstance(self.v, Exception):
            raise self.v
        return self.v

    def __repr__(self):
        return "Idx(%r)" % (self.v,)


class Flt:
    def __init__(self, v):
        self.v = v

    def __float__(self):
        if isinstance(self.v, Exception):
            raise self.v
        return self.v

    def __repr__(self):
        return "Flt(%r)" % (self.v,)


class Cpx:
    def __init__(self, v):
        self.v = v

    def __complex__(self):
        if isinstance(self.v, Exception):
            raise self.v
        return self.v

    def __repr__(self):
        return "Cpx(%r)" % (self.v,)


class BadEq:
    def __eq__(self, o):
        raise RuntimeError("eq")

    __hash__ = object.__hash__

    def __repr__(self):
        return "BadEq()"


class ArrEq:
    """== returns an array (truth value ambiguous)"""
    def __eq__(self, o):
        return np.array([True, False])

    __hash__ = object.__hash__

    def __repr__(self):
        return "ArrEq()"


class Plain:
    def __repr__(self):
        return "Plain()"


class PlainSub(Plain):
    def __repr__(self):
        return "PlainSub()"


class CallableObj:
    def __call__(self):
        return 1

    def __repr__(self):
        return "CallableObj()"


def _f():
    pass


def lattice(extra_floats=()):
    nan = float("nan")
    V = []

    def add(i, c, v):
        V.append((i, c, v))
    add("None", "none", None)
    add("True", "bool", True)
    add("False", "bool", False)
    for n in (0, 1, -1, 2, 3, 5, 7, 10, 11, 255, 2 ** 31 - 1, 2 ** 31, 2 ** 63 - 1, 2 ** 63, 2 ** 64,
              -2 ** 63 - 1, 10 ** 30, -10 ** 30, 10 ** 400):
        add("int:%s" % (n if abs(n) < 10 ** 6 else "%de%d" % (1 if n > 0 else -1, len(str(abs(n))) - 1)
                         + (":%d" % (n % 1000))),
            "int" if abs(n) < 2 ** 63 else "bigint", n)
    fl = [0.0, -0.0, 0.5, 1.0, -1.0, 1.5, 2.0, 3.0, 10.0, 10.5, 1e308, 5e-324, float("inf"), -float("inf")]
    for b in (0.0, 1.0, 10.0) + tuple(extra_floats):
        fl += [math.nextafter(b, math.inf), math.nextafter(b, -math.inf)]
    seen = set()
    for x in fl:
        k = repr(x)
        if k in seen:
            continue
        seen.add(k)
        add("float:" + k, "float" if math.isfinite(x) else "inf", x)
    add("nan:1", "nan", nan)
    add("nan:2", "nan", float("nan"))
    add("nan:-", "nan", -nan)
    for z in (1j, 0j, 1 + 2j, complex(nan, 0), complex(0.5, 0)):
        add("complex:%r" % (z,), "complex", z)
    for s in ("", "a", "ab", "abc", "abcd", "12", " 1 ", "yes", "y", "Ye", "no", "n", "1.5", "b",
              "x" * 100, "été", "al", "alp", "alpha", "be", "a\n"):
        add("str:%r" % (s if len(s) < 12 else s[:3] + "..%d" % len(s)), "str", s)
    add("str:twin-abc", "str", "".join(["a", "b", "c"]))
    for b in (b"", b"a", b"abc"):
        add("bytes:%r" % b, "bytes", b)
    add("bytearray:a", "bytearray", bytearray(b"a"))
    add("memoryview:a", "memoryview", memoryview(b"a"))
    add("I(3)", "int-subclass", I(3))
    add("I(0)", "int-subclass", I(0))
    add("F(0.5)", "float-subclass", F(0.5))
    add("F(nan)", "float-subclass-nan", F(nan))
    add("S('a')", "str-subclass", S("a"))
    add("S('abc')", "str-subclass", S("abc"))
    add("B(b'a')", "bytes-subclass", B(b"a"))
    add("T((1,2))", "tuple-subclass", T((1, 2)))
    add("T((1,'a'))", "tuple-subclass", T((1, "a")))
    add("NT(1,2)", "namedtuple", NT(1, 2))
    add("NT(1,'a')", "namedtuple", NT(1, "a"))
    add("L([1,2])", "list-subclass", L([1, 2]))
    for nm, v in (("np.int8(1)", np.int8(1)), ("np.int8(127)", np.int8(127)), ("np.int32(5)", np.int32(5)),
                  ("np.int64(-1)", np.int64(-1)), ("np.uint8(255)", np.uint8(255)),
                  ("np.uint64(max)", np.uint64(2 ** 64 - 1)), ("np.intp(3)", np.intp(3))):
        add(nm, "np-int", v)
    for nm, v in (("np.float16(0.5)", np.float16(0.5)), ("np.float32(0.5)", np.float32(0.5)),
                  ("np.float64(0.5)", np.float64(0.5)), ("np.float64(1.0)", np.float64(1.0)),
                  ("np.float64(11.0)", np.float64(11.0)), ("np.float32(inf)", np.float32("inf"))):
        add(nm, "np-float", v)
    add("np.float64(nan)", "np-nan", np.float64(nan))
    add("np.float32(nan)", "np-nan", np.float32(nan))
    add("np.bool_(True)", "np-bool", np.bool_(True))
    add("np.bool_(False)", "np-bool", np.bool_(False))
    add("np.complex64(1j)", "np-complex", np.complex64(1j))
    add("np.complex128(.5)", "np-complex", np.complex128(0.5))
    add("np.str_('a')", "np-str", np.str_("a"))
    add("np.bytes_(b'a')", "np-bytes", np.bytes_(b"a"))
    add("np.array(1)", "np-0d", np.array(1))
    add("np.array(0.5)", "np-0d", np.array(0.5))
    add("np.array([1])", "np-1d", np.array([1]))
    add("np.array([1,2])", "np-1d", np.array([1, 2]))
    add("np.array([1.,2.])", "np-1d", np.array([1.0, 2.0]))
    add("np.array([1,2,3],i1)", "np-1d", np.array([1, 2, 3], dtype="int8"))
    add("np.array([.5,nan])", "np-1d", np.array([0.5, nan]))
    add("np.zeros(0)", "np-1d", np.zeros(0))
    add("np.array([[1,2],[3,4]])", "np-2d", np.array([[1, 2], [3, 4]]))
    add("np.zeros((3,2))", "np-2d", np.zeros((3, 2)))
    add("np.zeros((2,3))", "np-2d", np.zeros((2, 3)))
    add("np.array(['a','b'])", "np-str-array", np.array(["a", "b"]))
    add("np.array([1,'a'],object)", "np-object-array", np.array([1, "a"], dtype=object))
    add("np.array([1+2j])", "np-1d", np.array([1 + 2j]))
    for nm, v in (("Idx(3)", 3), ("Idx(True)", True), ("Idx('x')", "x"), ("Idx(2**70)", 2 ** 70),
                  ("Idx(I(4))", I(4))):
        add(nm, "index-ok" if isinstance(v, int) else "index-wrongtype", Idx(v))
    add("Idx(TypeError)", "index-typeerror", Idx(TypeError("t")))
    add("Idx(ValueError)", "index-raises", Idx(ValueError("v")))
    add("Idx(RuntimeError)", "index-raises", Idx(RuntimeError("r")))
    add("Idx(OverflowError)", "index-raises", Idx(OverflowError("o")))
    for nm, v in (("Flt(0.5)", 0.5), ("Flt(nan)", nan), ("Flt(1)", 1), ("Flt('x')", "x"), ("Flt(F(.5))", F(0.5)),
                  ("Flt(11.0)", 11.0)):
        add(nm, "float-ok" if type(v) is float else "float-wrongtype", Flt(v))
    add("Flt(TypeError)", "float-typeerror", Flt(TypeError("t")))
    add("Flt(ValueError)", "float-raises", Flt(ValueError("v")))
    add("Flt(OverflowError)", "float-raises", Flt(OverflowError("o")))
    add("Flt(RuntimeError)", "float-raises", Flt(RuntimeError("r")))
    add("Cpx(1j)", "complex-ok", Cpx(1j))
    add("Cpx(1.0)", "complex-wrongtype", Cpx(1.0))
    add("Cpx(TypeError)", "complex-typeerror", Cpx(TypeError("t")))
    add("Cpx(ValueError)", "complex-raises", Cpx(ValueError("v")))
    add("BadEq()", "eq-raises", BadEq())
    add("ArrEq()", "eq-array", ArrEq())
    for nm, v in (("()", ()), ("(1,)", (1,)), ("(1,2)", (1, 2)), ("(1,'a')", (1, "a")), ("('a',1)", ("a", 1)),
                  ("(1,2,3)", (1, 2, 3)), ("(1.0,2)", (1.0, 2)), ("(True,'a')", (True, "a")),
                  ("((1,2),'a')", ((1, 2), "a")), ("((1,0.5),True)", ((1, 0.5), True)),
                  ("(None,1)", (None, 1)), ("([1],2)", ([1], 2)), ("(0.5,0.5)", (0.5, 0.5)),
                  ("(nan,1)", (nan, 1)), ("(Idx(3),'a')", (Idx(3), "a")), ("('a','b')", ("a", "b"))):
        add("tuple:" + nm, "tuple", v)
    for nm, v in (("[]", []), ("[1]", [1]), ("[1,2]", [1, 2]), ("[1,'a']", [1, "a"]), ("[1,2,3]", [1, 2, 3]),
                  ("[0.5]", [0.5]), ("[1.5,2.5]", [1.5, 2.5]), ("[[1,2],[3,4]]", [[1, 2], [3, 4]]),
                  ("[True]", [True]), ("['a','b']", ["a", "b"]), ("[None]", [None]), ("[nan]", [nan]),
                  ("[Idx(3)]", [Idx(3)]), ("[[1],[2]]", [[1], [2]])):
        add("list:" + nm, "list", v)
    add("set:{1}", "set", {1})
    add("set:{}", "set", set())
    add("set:{1,'a'}", "set", {1, "a"})
    add("frozenset:{1}", "frozenset", frozenset({1}))
    add("dict:{}", "dict", {})
    add("dict:{'a':1}", "dict", {"a": 1})
    add("dict:{1:'a'}", "dict", {1: "a"})
    add("dict:{'a':[1]}", "dict", {"a": [1]})
    add("dict:{'a':'b'}", "dict", {"a": "b"})
    # composite values around harness objects (for nested Instance specs)
    add("tuple:(Plain(),1)", "tuple-obj", (Plain(), 1))
    add("tuple:(PlainSub(),2)", "tuple-obj", (PlainSub(), 2))
    add("tuple:(None,1)b", "tuple-obj", (None, 1))
    add("tuple:(object(),1)", "tuple-obj", (object(), 1))
    # tuples whose order relation flips under numeric conversion
    add("tuple:('10','9')", "tuple-convertible", ("10", "9"))
    add("tuple:('9','10')", "tuple-convertible", ("9", "10"))
    add("tuple:(-0.9,0.9)", "tuple-convertible", (-0.9, 0.9))
    add("tuple:(0.9,2.2)", "tuple-convertible", (0.9, 2.2))
    add("tuple:('2',3)", "tuple-convertible", ("2", 3))
    add("tuple:(3,'2')", "tuple-convertible", (3, "2"))
    add("dict:{'a':Plain()}", "dict-obj", {"a": Plain()})
    add("dict:{'a':None}", "dict-obj", {"a": None})
    add("list:[(Plain(),1)]", "list-obj", [(Plain(), 1)])
    add("list:[Plain()]", "list-obj", [Plain()])
    add("deque([1])", "deque", collections.deque([1]))
    add("range(3)", "range", range(3))
    for nm, v in (("int", int), ("float", float), ("str", str), ("Plain", Plain), ("PlainSub", PlainSub)):
        add("class:" + nm, "class", v)
    add("Plain()", "object", Plain())
    add("PlainSub()", "object-sub", PlainSub())
    add("object()", "object", object())
    add("function", "callable", _f)
    add("builtin:len", "callable", len)
    add("lambda", "callable", (lambda: 0))
    add("boundmethod", "callable", Plain().__repr__)
    add("CallableObj()", "callable", CallableObj())
    add("module:sys", "module", sys)
    add("module:types", "module", types)
    add("date", "date", datetime.date(2020, 1, 1))
    add("datetime", "datetime", datetime.datetime(2020, 1, 1, 1, 2))
    add("time", "time", datetime.time(1, 2))
    add("timedelta", "timedelta", datetime.timedelta(1))
    add("Ellipsis", "object", Ellipsis)
    add("NotImplemented", "object", NotImplemented)
    return V
