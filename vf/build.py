"""Snapshot /repo's working tree into a scratch directory and compile ctraits.c.

Nothing under /repo is written.  The scratch directory lives outside /repo and
/verif (mkdtemp) and is removed by the caller (`Build.cleanup`, also atexit).
"""
import atexit
import os
import shutil
import subprocess
import sys
import sysconfig
import tempfile

PY = "/venv/bin/python"


def _py_include():
    out = subprocess.run(
        [PY, "-c", "import sysconfig;print(sysconfig.get_paths()['include'])"],
        capture_output=True, text=True, check=True)
    return out.stdout.strip()


def _ext_suffix():
    out = subprocess.run(
        [PY, "-c", "import sysconfig;print(sysconfig.get_config_var('EXT_SUFFIX'))"],
        capture_output=True, text=True, check=True)
    return out.stdout.strip()


def asan_runtime():
    out = subprocess.run(
        ["clang-14", "-print-file-name=libclang_rt.asan-x86_64.so"],
        capture_output=True, text=True, check=True)
    return out.stdout.strip()


class BuildError(Exception):
    pass


class Build:
    """One snapshot of <repo>/traits with one or more compiled flavours.

    Flavours live in sibling directories: <root>/P/traits, <root>/S/traits ...
    each a full copy of the package with its own ctraits .so, so a child
    process selects a flavour purely through PYTHONPATH.
    """

    def __init__(self, repo="/repo"):
        self.repo = os.path.abspath(repo)
        self.root = tempfile.mkdtemp(prefix="vfbuild-")
        self.flavours = {}
        atexit.register(self.cleanup)

    def cleanup(self):
        shutil.rmtree(self.root, ignore_errors=True)

    def _snapshot(self, dest):
        os.makedirs(dest, exist_ok=True)
        r = subprocess.run(
            ["rsync", "-a", "--exclude", "*.so", "--exclude", "__pycache__",
             "--exclude", "*.pyc",
             os.path.join(self.repo, "traits") + "/", os.path.join(dest, "traits") + "/"],
            capture_output=True, text=True)
        if r.returncode != 0:
            raise BuildError("rsync failed: " + r.stderr)

    def flavour(self, kind="P"):
        """Return the PYTHONPATH directory of flavour `kind`, building it once."""
        if kind in self.flavours:
            return self.flavours[kind]
        dest = os.path.join(self.root, kind)
        self._snapshot(dest)
        src = os.path.join(dest, "traits", "ctraits.c")
        so = os.path.join(dest, "traits", "ctraits" + _ext_suffix())
        inc = _py_include()
        if kind == "P":
            cmd = ["gcc", "-shared", "-fPIC", "-O2", "-g0", "-fno-strict-overflow",
                   "-fwrapv", "-DNDEBUG", "-I" + inc, src, "-o", so]
        elif kind == "S":
            cmd = ["clang-14", "-shared", "-fPIC", "-O1", "-g",
                   "-fno-omit-frame-pointer", "-fsanitize=address,undefined",
                   "-fno-sanitize-recover=all", "-I" + inc, src, "-o", so]
        elif kind == "V":
            cmd = ["clang-14", "-shared", "-fPIC", "-O0", "-g",
                   "-fprofile-instr-generate", "-fcoverage-mapping",
                   "-I" + inc, src, "-o", so]
        else:
            raise ValueError(kind)
        r = subprocess.run(cmd, capture_output=True, text=True)
        if r.returncode != 0:
            raise BuildError("compile failed (%s):\n%s" % (kind, r.stderr[-4000:]))
        self.flavours[kind] = dest
        return dest

    def so_path(self, kind):
        return os.path.join(self.flavour(kind), "traits", "ctraits" + _ext_suffix())

    def env(self, kind="P", extra=None, hashseed=0):
        """Environment for a child that must import the snapshot."""
        env = dict(os.environ)
        verif_root = os.path.dirname(os.path.dirname(os.path.abspath(__file__)))
        env["PYTHONPATH"] = self.flavour(kind) + os.pathsep + verif_root
        env["PYTHONHASHSEED"] = str(hashseed)
        env["PYTHONDONTWRITEBYTECODE"] = "1"
        env["TRAITS_VERIF"] = "1"
        env["VF_SNAPSHOT"] = self.flavour(kind)
        env["ETS_TOOLKIT"] = "null"
        if kind == "S":
            env["LD_PRELOAD"] = asan_runtime()
            env["PYTHONMALLOC"] = "malloc"
            env["ASAN_OPTIONS"] = ("detect_leaks=0:halt_on_error=1:abort_on_error=1:"
                                   "allocator_may_return_null=1:detect_stack_use_after_return=0")
            env["UBSAN_OPTIONS"] = "print_stacktrace=1:halt_on_error=1"
            env["ASAN_SYMBOLIZER_PATH"] = "/usr/bin/llvm-symbolizer-14"
        if kind == "V":
            env["LLVM_PROFILE_FILE"] = os.path.join(self.flavour(kind), "cov-%p.profraw")
        if extra:
            env.update(extra)
        return env
