#!/bin/sh
# Offline setup: verifies the toolchain the checks need; installs nothing.
cd "$(dirname "$0")" || exit 2
fail=0
for t in gcc clang-14 rsync /venv/bin/python; do
  command -v "$t" >/dev/null 2>&1 || { echo "missing tool: $t"; fail=1; }
done
/venv/bin/python - <<'PY' || fail=1
import sysconfig, os, sys
inc = sysconfig.get_paths()["include"]
assert os.path.exists(os.path.join(inc, "Python.h")), "Python.h missing"
import numpy
print("python", sys.version.split()[0], "numpy", numpy.__version__)
PY
asan=$(clang-14 -print-file-name=libclang_rt.asan-x86_64.so)
[ -f "$asan" ] || { echo "missing ASan runtime"; fail=1; }
mkdir -p evidence replays
chmod +x check
exit $fail
